(* C11 for the 3D solver: "each gradient component is the one-sided difference quotient of the RETURNED traveltime grid
   towards the neighbour its recorded direction points to, and its sign against that direction is decided by the upwind
   relation" (end of fteik3d in _fteik/_fteik3d.py: gradient assembly from the sign array ttsgn and normalisation), for the
   WHOLE solver with return_gradient = True, over the reals (T := R, instance NumR), for ALL inputs (no bound on sizes, no
   hypothesis on the medium or the source; the only hypothesis is that the solver returned).  Mirror of proofs/GradSign.v
   (G1), (G3); components in the order (Z, X, Y).

   The code records at each node three directions ttsgn[i,j,k,0..2] in {-1,0,1} and finally does
       if ttsgn[i,j,k,0] != 0: ttgrad[i,j,k,0] = s * (tt[i,j,k] - tt[i-s,j,k]) / dz       (same for x, y)
       gn = norm3d(ttgrad[i,j,k,:]);  if gn > 0: ttgrad[i,j,k] /= gn

   final_state3       the state (traveltimes, recorded directions) after the nsweep sweeps (Solve3dProofs.pass3d iterated
                      on tt0_3d, ttsgn0_3d)
   grad0_3d           the gradient array before the assembly: zeros, with the analytic derivative t_anad written at the 8
                      corners of the source cell (the "seed"); grad0_3d_off_cell: it is 0 at every other node
   raw3_z/x/y         the un-normalised component: s * (tt[i,j,k] - tt[i-s,j,k]) / dz when s <> 0, the seed otherwise
   normed3            a component of (a, b, c) divided by |(a, b, c)| when that norm is > 0, itself otherwise

   (H1) PROVED  asm3_value (assembly loop nest, any tt / ttsgn / well-formed ttgrad), fteik3d_out_true (the solver returns
                (fst st, asm3 (fst st) (snd st) grad0_3d, vzero) with st = final_state3), and
                fteik3d_gradient_assembly: the returned tt is fst final_state3 and at every node
                    ttgrad[i,j,k,:] = (rz, rx, ry) / |(rz, rx, ry)|   ((rz, rx, ry) when the norm is 0)
                with rz = raw3_z tt sg dz grad0_3d i j k etc. computed from the RETURNED tt.
   (H2) PROVED AS AN EQUIVALENCE  comp3_sign_z/x/y, fteik3d_gradient_sign_iff: for a recorded direction s <> 0 and a
                positive spacing, c * s >= 0 <-> tt[neighbour] <= tt[node] and c * s < 0 <-> tt[node] < tt[neighbour]
                (c the returned component), for each of the three axes.  comp3_sign0_*: a component with recorded
                direction 0 is a positive multiple of the seed.  fteik3d_gradient_sign_partial: c * s >= 0 on all three
                axes from the upwind relation at the node as a HYPOTHESIS (whether the sweeps establish that relation is
                not treated here; in 2D it is false, see GradSign.v).
   Non-vacuity: fteik3d_gradient_sign_run_R (2 x 2 x 2 cells, unit slowness and spacings, off-node source, 2 sweeps: the
                solver returns and both conclusions hold at the 27 nodes), asm3_sign_ex_R (a node with recorded direction
                (1, 0, -1): the premise s <> 0 is satisfiable and both equivalences are exercised),
                FloatRun3.recorded_signs_binary64 (binary64 run of the same model: non-zero directions are recorded). *)
From Coq Require Import ZArith List Bool Lia Reals Lra Psatz.
From FT.lib Require Import Num Arr ArrLemmas.
From FT.gen Require Import Common Fteik3d.
From FT.proofs Require Import GradR Solve2dProofs Solve3dProofs GradUnit GradSign.
Import ListNotations.
Open Scope Z_scope.

(* conversion must never unfold the big generated constants *)
Local Strategy 1000 [fteik3d_p1 sweep3d Fteik3d.t_anad].

Open Scope R_scope.

(* ------------------------------------------------------------------------------------------ *)
(* the raw (un-normalised) components at node (i, j, k) and the normalisation                    *)
(* ------------------------------------------------------------------------------------------ *)
Definition raw3_z (tt : arr R) (sg : arr Z) (dz : R) (G : arr R) (i j k : Z) : R :=
  let s := get 0%Z sg [i; j; k; 0%Z] in
  if (s =? 0)%Z then get 0 G [i; j; k; 0%Z] else IZR s * (get 0 tt [i; j; k] - get 0 tt [(i - s)%Z; j; k]) / dz.
Definition raw3_x (tt : arr R) (sg : arr Z) (dx : R) (G : arr R) (i j k : Z) : R :=
  let s := get 0%Z sg [i; j; k; 1%Z] in
  if (s =? 0)%Z then get 0 G [i; j; k; 1%Z] else IZR s * (get 0 tt [i; j; k] - get 0 tt [i; (j - s)%Z; k]) / dx.
Definition raw3_y (tt : arr R) (sg : arr Z) (dy : R) (G : arr R) (i j k : Z) : R :=
  let s := get 0%Z sg [i; j; k; 2%Z] in
  if (s =? 0)%Z then get 0 G [i; j; k; 2%Z] else IZR s * (get 0 tt [i; j; k] - get 0 tt [i; j; (k - s)%Z]) / dy.
(* a component v of the vector (a, b, c), divided by the norm when the norm is > 0 *)
Definition normed3 (a b c v : R) : R :=
  if Rltb 0 (sqrt (a * a + b * b + c * c)) then v / sqrt (a * a + b * b + c * c) else v.

(* ------------------------------------------------------------------------------------------ *)
(* (H1) one node of the assembly loop                                                           *)
(* ------------------------------------------------------------------------------------------ *)
Lemma node3_value nz nx ny (tt : arr R) sg dz dx dy (G : arr R) i j k :
  okG3 nz nx ny G -> (0 <= i < nz)%Z -> (0 <= j < nx)%Z -> (0 <= k < ny)%Z ->
  let rz := raw3_z tt sg dz G i j k in let rx := raw3_x tt sg dx G i j k in let ry := raw3_y tt sg dy G i j k in
  get 0 (node3 tt sg dz dx dy i j k G) [i; j; k; 0%Z] = normed3 rz rx ry rz /\
  get 0 (node3 tt sg dz dx dy i j k G) [i; j; k; 1%Z] = normed3 rz rx ry rx /\
  get 0 (node3 tt sg dz dx dy i j k G) [i; j; k; 2%Z] = normed3 rz rx ry ry.
Proof.
  intros Hok Hi Hj Hk rz rx ry. unfold node3. cbv zeta.
  set (sz := get 0%Z sg [i; j; k; 0%Z]). set (sx := get 0%Z sg [i; j; k; 1%Z]). set (sy := get 0%Z sg [i; j; k; 2%Z]).
  set (G1 := if negb (sz =? 0)%Z then set G [i; j; k; 0%Z] _ else G).
  set (G2 := if negb (sx =? 0)%Z then set G1 [i; j; k; 1%Z] _ else G1).
  set (G3 := if negb (sy =? 0)%Z then set G2 [i; j; k; 2%Z] _ else G2).
  assert (I0 : forall c, (0 <= c < 3)%Z -> inb G [i; j; k; c] = true) by (intros; eapply okG3_inb; eauto).
  assert (H1 : okG3 nz nx ny G1 /\ get 0 G1 [i; j; k; 0%Z] = rz /\
               get 0 G1 [i; j; k; 1%Z] = get 0 G [i; j; k; 1%Z] /\ get 0 G1 [i; j; k; 2%Z] = get 0 G [i; j; k; 2%Z]).
  { unfold G1, rz, raw3_z. cbv zeta. fold sz. destruct (sz =? 0)%Z; cbn [negb].
    - split; [exact Hok|]. repeat split; reflexivity.
    - split; [apply okG3_set, Hok|]. split; [|split].
      + rewrite get_set_same; [reflexivity | apply Hok | apply I0; lia].
      + apply get_set_other; [apply I0; lia | apply I0; lia | intro E; injection E; lia].
      + apply get_set_other; [apply I0; lia | apply I0; lia | intro E; injection E; lia]. }
  destruct H1 as (Hok1 & A1 & B1 & C1).
  assert (I1 : forall c, (0 <= c < 3)%Z -> inb G1 [i; j; k; c] = true) by (intros; eapply okG3_inb; eauto).
  assert (H2 : okG3 nz nx ny G2 /\ get 0 G2 [i; j; k; 0%Z] = rz /\ get 0 G2 [i; j; k; 1%Z] = rx /\
               get 0 G2 [i; j; k; 2%Z] = get 0 G [i; j; k; 2%Z]).
  { unfold G2. destruct (sx =? 0)%Z eqn:Es; cbn [negb].
    - split; [exact Hok1|]. split; [exact A1|]. split; [|exact C1].
      rewrite B1. unfold rx, raw3_x. cbv zeta. fold sx. rewrite Es. reflexivity.
    - split; [apply okG3_set, Hok1|]. split; [|split].
      + rewrite get_set_other; [exact A1 | apply I1; lia | apply I1; lia | intro E; injection E; lia].
      + rewrite get_set_same; [| apply Hok1 | apply I1; lia].
        unfold rx, raw3_x. cbv zeta. fold sx. rewrite Es. reflexivity.
      + rewrite get_set_other; [exact C1 | apply I1; lia | apply I1; lia | intro E; injection E; lia]. }
  destruct H2 as (Hok2 & A2 & B2 & C2).
  assert (I2 : forall c, (0 <= c < 3)%Z -> inb G2 [i; j; k; c] = true) by (intros; eapply okG3_inb; eauto).
  assert (H3 : okG3 nz nx ny G3 /\ get 0 G3 [i; j; k; 0%Z] = rz /\ get 0 G3 [i; j; k; 1%Z] = rx /\
               get 0 G3 [i; j; k; 2%Z] = ry).
  { unfold G3. destruct (sy =? 0)%Z eqn:Es; cbn [negb].
    - split; [exact Hok2|]. split; [exact A2|]. split; [exact B2|].
      rewrite C2. unfold ry, raw3_y. cbv zeta. fold sy. rewrite Es. reflexivity.
    - split; [apply okG3_set, Hok2|]. split; [|split].
      + rewrite get_set_other; [exact A2 | apply I2; lia | apply I2; lia | intro E; injection E; lia].
      + rewrite get_set_other; [exact B2 | apply I2; lia | apply I2; lia | intro E; injection E; lia].
      + rewrite get_set_same; [| apply Hok2 | apply I2; lia].
        unfold ry, raw3_y. cbv zeta. fold sy. rewrite Es. reflexivity. }
  destruct H3 as (Hok3 & A3 & B3 & C3). clearbody G3. clear G1 G2 Hok1 A1 B1 C1 I1 Hok2 A2 B2 C2 I2.
  unfold normalize3. cbv zeta. change (@nofZ R NumR 0) with 0. rewrite A3, B3, C3.
  change (ngtb (norm3d rz rx ry) 0) with (Rltb 0 (norm3d rz rx ry)). rewrite norm3d_R.
  unfold normed3. destruct (Rltb 0 (sqrt (rz * rz + rx * rx + ry * ry))).
  - pose proof Hok3 as [W3 S3].
    rewrite !(get_block_map4 _ 0 G3 nz nx ny 3 i j k i j k) by (auto; lia). rewrite !Z.eqb_refl. cbn [andb].
    rewrite A3, B3, C3. repeat split; reflexivity.
  - repeat split; assumption.
Qed.

(* ------------------------------------------------------------------------------------------ *)
(* (H1) the loop nest                                                                           *)
(* ------------------------------------------------------------------------------------------ *)
Section Asm3.
Variables (nz nx ny : Z) (tt : arr R) (sg : arr Z) (dz dx dy : R).

(* the entries of node (i, j, k) agree in a and b / b holds the processed form of a's entries *)
Definition nodeE3 (i j k : Z) (a b : arr R) : Prop :=
  get 0 b [i; j; k; 0%Z] = get 0 a [i; j; k; 0%Z] /\ get 0 b [i; j; k; 1%Z] = get 0 a [i; j; k; 1%Z] /\
  get 0 b [i; j; k; 2%Z] = get 0 a [i; j; k; 2%Z].
Definition nodeD3 (i j k : Z) (a b : arr R) : Prop :=
  let rz := raw3_z tt sg dz a i j k in let rx := raw3_x tt sg dx a i j k in let ry := raw3_y tt sg dy a i j k in
  get 0 b [i; j; k; 0%Z] = normed3 rz rx ry rz /\ get 0 b [i; j; k; 1%Z] = normed3 rz rx ry rx /\
  get 0 b [i; j; k; 2%Z] = normed3 rz rx ry ry.

Lemma raw3_nodeE i j k a b :
  nodeE3 i j k a b ->
  raw3_z tt sg dz b i j k = raw3_z tt sg dz a i j k /\ raw3_x tt sg dx b i j k = raw3_x tt sg dx a i j k /\
  raw3_y tt sg dy b i j k = raw3_y tt sg dy a i j k.
Proof. intros (E0 & E1 & E2). unfold raw3_z, raw3_x, raw3_y. cbv zeta. rewrite E0, E1, E2. repeat split; reflexivity. Qed.
Lemma nodeE3_refl i j k a : nodeE3 i j k a a. Proof. repeat split; reflexivity. Qed.
Lemma nodeE3_trans i j k a b c : nodeE3 i j k a b -> nodeE3 i j k b c -> nodeE3 i j k a c.
Proof. intros (A0 & A1 & A2) (B0 & B1 & B2). repeat split; congruence. Qed.
Lemma nodeED3 i j k a b c : nodeE3 i j k a b -> nodeD3 i j k b c -> nodeD3 i j k a c.
Proof.
  intros E D. unfold nodeD3 in *. cbv zeta in *. destruct (raw3_nodeE i j k a b E) as (Ez & Ex & Ey).
  rewrite Ez, Ex, Ey in D. exact D.
Qed.
Lemma nodeDE3 i j k a b c : nodeD3 i j k a b -> nodeE3 i j k b c -> nodeD3 i j k a c.
Proof. intros (D0 & D1 & D2) (E0 & E1 & E2). unfold nodeD3. cbv zeta. rewrite E0, E1, E2. repeat split; assumption. Qed.

Lemma frame3_nodeE i j k i' j' k' (a b : arr R) :
  frame3 nz nx ny i j k b a -> (0 <= i' < nz)%Z -> (0 <= j' < nx)%Z -> (0 <= k' < ny)%Z ->
  (i' <> i \/ j' <> j \/ k' <> k) -> nodeE3 i' j' k' a b.
Proof. intros F Hi Hj Hk Ne. repeat split; apply F; auto; lia. Qed.

Definition row3 (i j : Z) (G : arr R) : arr R :=
  for_list (pyrange 0 ny 1) (fun k G => node3 tt sg dz dx dy i j k G) G.
Definition plane3 (i : Z) (G : arr R) : arr R := for_list (pyrange 0 nx 1) (fun j G => row3 i j G) G.

Lemma row3_value i j G :
  okG3 nz nx ny G -> (0 <= i < nz)%Z -> (0 <= j < nx)%Z ->
  okG3 nz nx ny (row3 i j G) /\
  (forall k, (0 <= k < ny)%Z -> nodeD3 i j k G (row3 i j G)) /\
  (forall i' j' k', (0 <= i' < nz)%Z -> (0 <= j' < nx)%Z -> (0 <= k' < ny)%Z -> (i' <> i \/ j' <> j) ->
     nodeE3 i' j' k' G (row3 i j G)).
Proof.
  intros Hok Hi Hj. unfold row3.
  destruct (for_list_nodes
              (fun G' => okG3 nz nx ny G' /\
                         forall i' j' k', (0 <= i' < nz)%Z -> (0 <= j' < nx)%Z -> (0 <= k' < ny)%Z -> (i' <> i \/ j' <> j) ->
                           nodeE3 i' j' k' G G')
              (fun k a b => (0 <= k < ny)%Z -> nodeE3 i j k a b) (fun k a b => (0 <= k < ny)%Z -> nodeD3 i j k a b)
              (pyrange 0 ny 1) (fun k G => node3 tt sg dz dx dy i j k G)) with (s := G) as ((Hok' & Fr) & HD & _).
  - intros k s _. apply nodeE3_refl.
  - intros k a b c H1 H2 Hk. eapply nodeE3_trans; eauto.
  - intros k a b c H1 H2 Hk. eapply nodeED3; eauto.
  - intros k a b c H1 H2 Hk. eapply nodeDE3; eauto.
  - intros k s Hk [Hs Fs]. apply in_pyrange_up in Hk.
    destruct (node3_spec nz nx ny tt sg dz dx dy s i j k Hs Hi Hj Hk) as (Hs' & _ & F).
    split; [split; [exact Hs'|]|split].
    + intros i' j' k' Hi' Hj' Hk' Ne. eapply nodeE3_trans; [apply Fs; assumption|].
      apply (frame3_nodeE i j k); auto; lia.
    + intros _. apply (node3_value nz nx ny); assumption.
    + intros k' Ne Hk'. apply (frame3_nodeE i j k); auto; lia.
  - apply NoDup_pyrange_up.
  - split; [exact Hok|]. intros. apply nodeE3_refl.
  - split; [exact Hok'|]. split; [|exact Fr].
    intros k Hk. apply HD; [apply in_pyrange_up; lia | exact Hk].
Qed.

Lemma plane3_value i G :
  okG3 nz nx ny G -> (0 <= i < nz)%Z ->
  okG3 nz nx ny (plane3 i G) /\
  (forall j k, (0 <= j < nx)%Z -> (0 <= k < ny)%Z -> nodeD3 i j k G (plane3 i G)) /\
  (forall i' j' k', (0 <= i' < nz)%Z -> (0 <= j' < nx)%Z -> (0 <= k' < ny)%Z -> i' <> i -> nodeE3 i' j' k' G (plane3 i G)).
Proof.
  intros Hok Hi. unfold plane3.
  destruct (for_list_nodes
              (fun G' => okG3 nz nx ny G' /\
                         forall i' j' k', (0 <= i' < nz)%Z -> (0 <= j' < nx)%Z -> (0 <= k' < ny)%Z -> i' <> i ->
                           nodeE3 i' j' k' G G')
              (fun j a b => (0 <= j < nx)%Z -> forall k, (0 <= k < ny)%Z -> nodeE3 i j k a b)
              (fun j a b => (0 <= j < nx)%Z -> forall k, (0 <= k < ny)%Z -> nodeD3 i j k a b)
              (pyrange 0 nx 1) (fun j G => row3 i j G)) with (s := G) as ((Hok' & Fr) & HD & _).
  - intros j s _ k _. apply nodeE3_refl.
  - intros j a b c H1 H2 Hj k Hk. eapply nodeE3_trans; eauto.
  - intros j a b c H1 H2 Hj k Hk. eapply nodeED3; eauto.
  - intros j a b c H1 H2 Hj k Hk. eapply nodeDE3; eauto.
  - intros j s Hj [Hs Fs]. apply in_pyrange_up in Hj.
    destruct (row3_value i j s Hs Hi Hj) as (Hs' & D & F).
    split; [split; [exact Hs'|]|split].
    + intros i' j' k' Hi' Hj' Hk' Ne. eapply nodeE3_trans; [apply Fs; assumption|]. apply F; auto.
    + intros _ k Hk. apply D, Hk.
    + intros j' Ne Hj' k Hk. apply F; auto.
  - apply NoDup_pyrange_up.
  - split; [exact Hok|]. intros. apply nodeE3_refl.
  - split; [exact Hok'|]. split; [|exact Fr].
    intros j k Hj Hk. apply HD; [apply in_pyrange_up; lia | exact Hj | exact Hk].
Qed.

(* ASSEMBLY (H1): every node of the outgoing array holds the raw vector of the incoming data, normalised *)
Theorem asm3_value (G : arr R) :
  okG3 nz nx ny G ->
  forall i j k, (0 <= i < nz)%Z -> (0 <= j < nx)%Z -> (0 <= k < ny)%Z ->
    nodeD3 i j k G (asm3 tt sg dz dx dy nz nx ny G).
Proof.
  intros Hok i j k Hi Hj Hk.
  change (asm3 tt sg dz dx dy nz nx ny G) with (for_list (pyrange 0 nz 1) (fun i G => plane3 i G) G).
  destruct (for_list_nodes (okG3 nz nx ny)
              (fun i a b => (0 <= i < nz)%Z -> forall j k, (0 <= j < nx)%Z -> (0 <= k < ny)%Z -> nodeE3 i j k a b)
              (fun i a b => (0 <= i < nz)%Z -> forall j k, (0 <= j < nx)%Z -> (0 <= k < ny)%Z -> nodeD3 i j k a b)
              (pyrange 0 nz 1) (fun i G => plane3 i G))
    with (s := G) as (_ & HD & _).
  - intros p s _ q r _ _. apply nodeE3_refl.
  - intros p a b c H1 H2 Hp q r Hq Hr. eapply nodeE3_trans; eauto.
  - intros p a b c H1 H2 Hp q r Hq Hr. eapply nodeED3; eauto.
  - intros p a b c H1 H2 Hp q r Hq Hr. eapply nodeDE3; eauto.
  - intros p s Hp Hs. apply in_pyrange_up in Hp.
    destruct (plane3_value p s Hs Hp) as (Hs' & D & F).
    split; [exact Hs'|]. split.
    + intros _ q r Hq Hr. apply D; assumption.
    + intros p' Ne Hp' q r Hq Hr. apply F; assumption.
  - apply NoDup_pyrange_up.
  - exact Hok.
  - apply HD; [apply in_pyrange_up; lia | exact Hi | exact Hj | exact Hk].
Qed.
End Asm3.

(* ------------------------------------------------------------------------------------------ *)
(* the solver returns (fst st, asm3 (fst st) (snd st) .. seed, vzero), st the state after the sweeps *)
(* ------------------------------------------------------------------------------------------ *)
Section Solve3.
Context {T : Type} `{Num T}.
Variables (slow : arr T) (dz dx dy zsrc xsrc ysrc : T).
Notation NZ := (dim slow 0 + 1)%Z.
Notation NX := (dim slow 1 + 1)%Z.
Notation NY := (dim slow 2 + 1)%Z.
Notation zsi := (zsi3 slow dz zsrc).
Notation xsi := (xsi3 slow dx xsrc).
Notation ysi := (ysi3 slow dy ysrc).

(* the state (traveltimes, recorded directions) after the sweeps *)
Definition final_state3 (nsweep : Z) : arr T * arr Z :=
  Nat.iter (Z.to_nat nsweep) (pass3d slow dz dx dy true)
           (tt0_3d slow dz dx dy zsrc xsrc ysrc, ttsgn0_3d slow true).

(* the gradient array before the assembly: zeros, and the analytic derivative at the 8 corners of the source cell *)
Definition seed3 (G : arr T) (i j k : Z) : arr T :=
  let r := t_anad i j k dz dx dy (zsa3 dz zsrc) (xsa3 dx xsrc) (ysa3 dy ysrc) (vzero3 slow dz dx dy zsrc xsrc ysrc) in
  set (set (set G [i; j; k; 0%Z] (snd (fst (fst r)))) [i; j; k; 1%Z] (snd (fst r))) [i; j; k; 2%Z] (snd r).
Definition grad0_3d : arr T :=
  let G := full [NZ; NX; NY; 3%Z] (nofZ 0) in
  let G := seed3 G zsi xsi ysi in
  let G := seed3 G (zsi + 1)%Z xsi ysi in
  let G := seed3 G zsi (xsi + 1)%Z ysi in
  let G := seed3 G zsi xsi (ysi + 1)%Z in
  let G := seed3 G (zsi + 1)%Z (xsi + 1)%Z ysi in
  let G := seed3 G (zsi + 1)%Z xsi (ysi + 1)%Z in
  let G := seed3 G zsi (xsi + 1)%Z (ysi + 1)%Z in
  let G := seed3 G (zsi + 1)%Z (xsi + 1)%Z (ysi + 1)%Z in
  G.

Lemma grad0_3d_sig : sig grad0_3d = sig (full [NZ; NX; NY; 3%Z] (nofZ 0 : T)).
Proof. unfold grad0_3d, seed3. cbv zeta. rewrite !sig_set. reflexivity. Qed.

Definition out3_is (Q : arr T -> arr T -> Prop) (r : res (arr T * arr T * T)) : Prop :=
  match r with Ok (t, G, _) => Q t G | _ => True end.
Lemma out3_is_inv Q r a G c : out3_is Q r -> r = Ok (a, G, c) -> Q a G.
Proof. intros Hr ->. exact Hr. Qed.

Ltac olet3 :=
  lazymatch goal with
  | |- out3_is ?Q (let x := ?v in @?F x) => let y := fresh x in pose (y := v); change (out3_is Q (F y)); cbv beta
  end.

Lemma fteik3d_out_true nsweep :
  out3_is (fun t G => t = fst (final_state3 nsweep) /\
                      G = asm3 (fst (final_state3 nsweep)) (snd (final_state3 nsweep)) dz dx dy NZ NX NY grad0_3d)
          (fteik3d slow dz dx dy zsrc xsrc ysrc nsweep true).
Proof.
  cbv beta delta [fteik3d]. repeat olet3.
  lazymatch goal with |- out3_is _ (if ?c then _ else _) => destruct c; [exact I|] end.
  repeat olet3.
  lazymatch goal with u := for_list (pyrange 0 nsweep 1) _ ?s0 |- _ =>
    assert (Es : u = final_state3 nsweep);
    [ subst u; rewrite (for_range_iter (pass3d slow dz dx dy true)) by (intros ? ?; symmetry; apply surjective_pairing);
      apply (f_equal (Nat.iter _ _)); apply f_equal2; reflexivity
    | clearbody u; subst u ]
  end.
  cbn [out3_is]. split; [reflexivity|].
  repeat lazymatch goal with |- ?g = _ => is_var g; subst g end.
  rewrite fteik3d_p1_is_asm3. reflexivity.
Qed.
End Solve3.

(* ------------------------------------------------------------------------------------------ *)
(* (H2) the sign of a returned component                                                        *)
(* ------------------------------------------------------------------------------------------ *)
Lemma normed3_pos_mult a b c v : exists q, 0 < q /\ normed3 a b c v = q * v.
Proof.
  unfold normed3. destruct (Rltb 0 (sqrt (a * a + b * b + c * c))) eqn:E.
  - apply Rltb_true in E. exists (/ sqrt (a * a + b * b + c * c)).
    split; [apply Rinv_0_lt_compat, E | unfold Rdiv; ring].
  - exists 1. split; lra.
Qed.

(* a positive multiple of the quotient s * d / h, against s, has the sign of d *)
Lemma quotient_sign (q : R) (s : Z) (d h : R) :
  0 < q -> 0 < h -> s <> 0%Z ->
  let c := q * (IZR s * d / h) in (0 <= c * IZR s <-> 0 <= d) /\ (c * IZR s < 0 <-> d < 0).
Proof.
  intros Hq Hh Hs c.
  assert (Hs2 : 0 < IZR s * IZR s).
  { assert (IZR s <> 0) by (apply not_0_IZR; exact Hs). nra. }
  assert (Hp : 0 < q * (IZR s * IZR s) / h).
  { apply Rmult_lt_0_compat; [apply Rmult_lt_0_compat; assumption | apply Rinv_0_lt_compat; exact Hh]. }
  replace (c * IZR s) with (q * (IZR s * IZR s) / h * d) by (unfold c; field; lra).
  apply pos_mult_sign, Hp.
Qed.

Section Sign3.
Variables (tt : arr R) (sg : arr Z) (dz dx dy : R) (G0 G : arr R) (i j k : Z).
Hypothesis HD : nodeD3 tt sg dz dx dy i j k G0 G.

(* z axis: with s the recorded direction, the returned component times s has the sign of tt[i,j,k] - tt[i-s,j,k] *)
Theorem comp3_sign_z :
  0 < dz -> let s := get 0%Z sg [i; j; k; 0%Z] in s <> 0%Z ->
  let c := get 0 G [i; j; k; 0%Z] in
  (0 <= c * IZR s <-> get 0 tt [(i - s)%Z; j; k] <= get 0 tt [i; j; k]) /\
  (c * IZR s < 0 <-> get 0 tt [i; j; k] < get 0 tt [(i - s)%Z; j; k]).
Proof.
  intros Hh s Hs c. destruct HD as (D0 & _ & _). cbv zeta in D0.
  set (rz := raw3_z tt sg dz G0 i j k) in *. set (rx := raw3_x tt sg dx G0 i j k) in *.
  set (ry := raw3_y tt sg dy G0 i j k) in *.
  destruct (normed3_pos_mult rz rx ry rz) as (q & Hq & Eq). unfold c. rewrite D0, Eq.
  assert (Er : rz = IZR s * (get 0 tt [i; j; k] - get 0 tt [(i - s)%Z; j; k]) / dz).
  { unfold rz, raw3_z. cbv zeta. fold s. destruct (Z.eqb_spec s 0); [contradiction | reflexivity]. }
  rewrite Er. destruct (quotient_sign q s (get 0 tt [i; j; k] - get 0 tt [(i - s)%Z; j; k]) dz Hq Hh Hs) as [A B].
  cbv zeta in A, B. split; [rewrite A | rewrite B]; split; lra.
Qed.

Theorem comp3_sign_x :
  0 < dx -> let s := get 0%Z sg [i; j; k; 1%Z] in s <> 0%Z ->
  let c := get 0 G [i; j; k; 1%Z] in
  (0 <= c * IZR s <-> get 0 tt [i; (j - s)%Z; k] <= get 0 tt [i; j; k]) /\
  (c * IZR s < 0 <-> get 0 tt [i; j; k] < get 0 tt [i; (j - s)%Z; k]).
Proof.
  intros Hh s Hs c. destruct HD as (_ & D1 & _). cbv zeta in D1.
  set (rz := raw3_z tt sg dz G0 i j k) in *. set (rx := raw3_x tt sg dx G0 i j k) in *.
  set (ry := raw3_y tt sg dy G0 i j k) in *.
  destruct (normed3_pos_mult rz rx ry rx) as (q & Hq & Eq). unfold c. rewrite D1, Eq.
  assert (Er : rx = IZR s * (get 0 tt [i; j; k] - get 0 tt [i; (j - s)%Z; k]) / dx).
  { unfold rx, raw3_x. cbv zeta. fold s. destruct (Z.eqb_spec s 0); [contradiction | reflexivity]. }
  rewrite Er. destruct (quotient_sign q s (get 0 tt [i; j; k] - get 0 tt [i; (j - s)%Z; k]) dx Hq Hh Hs) as [A B].
  cbv zeta in A, B. split; [rewrite A | rewrite B]; split; lra.
Qed.

Theorem comp3_sign_y :
  0 < dy -> let s := get 0%Z sg [i; j; k; 2%Z] in s <> 0%Z ->
  let c := get 0 G [i; j; k; 2%Z] in
  (0 <= c * IZR s <-> get 0 tt [i; j; (k - s)%Z] <= get 0 tt [i; j; k]) /\
  (c * IZR s < 0 <-> get 0 tt [i; j; k] < get 0 tt [i; j; (k - s)%Z]).
Proof.
  intros Hh s Hs c. destruct HD as (_ & _ & D2). cbv zeta in D2.
  set (rz := raw3_z tt sg dz G0 i j k) in *. set (rx := raw3_x tt sg dx G0 i j k) in *.
  set (ry := raw3_y tt sg dy G0 i j k) in *.
  destruct (normed3_pos_mult rz rx ry ry) as (q & Hq & Eq). unfold c. rewrite D2, Eq.
  assert (Er : ry = IZR s * (get 0 tt [i; j; k] - get 0 tt [i; j; (k - s)%Z]) / dy).
  { unfold ry, raw3_y. cbv zeta. fold s. destruct (Z.eqb_spec s 0); [contradiction | reflexivity]. }
  rewrite Er. destruct (quotient_sign q s (get 0 tt [i; j; k] - get 0 tt [i; j; (k - s)%Z]) dy Hq Hh Hs) as [A B].
  cbv zeta in A, B. split; [rewrite A | rewrite B]; split; lra.
Qed.

(* a component whose recorded direction is 0 is the (normalised) seed left in the slot: 0 unless the initialisation wrote
   the analytic derivative there (the eight corners of the source cell, see grad0_3d_off_cell) *)
Theorem comp3_sign0_z :
  get 0%Z sg [i; j; k; 0%Z] = 0%Z -> exists q, 0 < q /\ get 0 G [i; j; k; 0%Z] = q * get 0 G0 [i; j; k; 0%Z].
Proof.
  intros Hs. destruct HD as (D0 & _ & _). cbv zeta in D0.
  destruct (normed3_pos_mult (raw3_z tt sg dz G0 i j k) (raw3_x tt sg dx G0 i j k) (raw3_y tt sg dy G0 i j k)
                             (raw3_z tt sg dz G0 i j k)) as (q & Hq & Eq).
  exists q. split; [exact Hq|]. rewrite D0, Eq. unfold raw3_z. cbv zeta. rewrite Hs. reflexivity.
Qed.
Theorem comp3_sign0_x :
  get 0%Z sg [i; j; k; 1%Z] = 0%Z -> exists q, 0 < q /\ get 0 G [i; j; k; 1%Z] = q * get 0 G0 [i; j; k; 1%Z].
Proof.
  intros Hs. destruct HD as (_ & D1 & _). cbv zeta in D1.
  destruct (normed3_pos_mult (raw3_z tt sg dz G0 i j k) (raw3_x tt sg dx G0 i j k) (raw3_y tt sg dy G0 i j k)
                             (raw3_x tt sg dx G0 i j k)) as (q & Hq & Eq).
  exists q. split; [exact Hq|]. rewrite D1, Eq. unfold raw3_x. cbv zeta. rewrite Hs. reflexivity.
Qed.
Theorem comp3_sign0_y :
  get 0%Z sg [i; j; k; 2%Z] = 0%Z -> exists q, 0 < q /\ get 0 G [i; j; k; 2%Z] = q * get 0 G0 [i; j; k; 2%Z].
Proof.
  intros Hs. destruct HD as (_ & _ & D2). cbv zeta in D2.
  destruct (normed3_pos_mult (raw3_z tt sg dz G0 i j k) (raw3_x tt sg dx G0 i j k) (raw3_y tt sg dy G0 i j k)
                             (raw3_y tt sg dy G0 i j k)) as (q & Hq & Eq).
  exists q. split; [exact Hq|]. rewrite D2, Eq. unfold raw3_y. cbv zeta. rewrite Hs. reflexivity.
Qed.
End Sign3.

(* ------------------------------------------------------------------------------------------ *)
(* the seed: 0 away from the 8 corners of the source cell                                       *)
(* ------------------------------------------------------------------------------------------ *)
Lemma seed3_keeps (slow : arr R) (dz dx dy zsrc xsrc ysrc : R) nz nx ny (G : arr R) a b c i j k e :
  okG3 nz nx ny G /\ get 0 G [i; j; k; e] = 0 ->
  (0 <= a < nz)%Z -> (0 <= b < nx)%Z -> (0 <= c < ny)%Z ->
  (0 <= i < nz)%Z -> (0 <= j < nx)%Z -> (0 <= k < ny)%Z -> (0 <= e < 3)%Z -> (i <> a \/ j <> b \/ k <> c) ->
  okG3 nz nx ny (seed3 slow dz dx dy zsrc xsrc ysrc G a b c) /\
  get 0 (seed3 slow dz dx dy zsrc xsrc ysrc G a b c) [i; j; k; e] = 0.
Proof.
  intros [Hok E0] Ha Hb Hc Hi Hj Hk He Ne. unfold seed3. cbv zeta.
  split; [repeat apply okG3_set; exact Hok|].
  rewrite !get_set_other;
    first [ exact E0
          | intro E; injection E; lia
          | eapply okG3_inb; [repeat apply okG3_set; exact Hok | lia ..] ].
Qed.

(* when the source cell lies in the grid (it does whenever the solver returns with positive spacings and at least one
   cell per axis: SourceCell.fteik3d_source_cell_R) the seed is 0 at every node that is not a corner of that cell *)
Lemma grad0_3d_off_cell (slow : arr R) (dz dx dy zsrc xsrc ysrc : R) i j k e :
  let zsi := zsi3 slow dz zsrc in let xsi := xsi3 slow dx xsrc in let ysi := ysi3 slow dy ysrc in
  (0 <= zsi < dim slow 0)%Z -> (0 <= xsi < dim slow 1)%Z -> (0 <= ysi < dim slow 2)%Z ->
  (0 <= i < dim slow 0 + 1)%Z -> (0 <= j < dim slow 1 + 1)%Z -> (0 <= k < dim slow 2 + 1)%Z -> (0 <= e < 3)%Z ->
  ~ ((i = zsi \/ i = zsi + 1) /\ (j = xsi \/ j = xsi + 1) /\ (k = ysi \/ k = ysi + 1))%Z ->
  get 0 (grad0_3d slow dz dx dy zsrc xsrc ysrc) [i; j; k; e] = 0.
Proof.
  intros zsi xsi ysi Hz Hx Hy Hi Hj Hk He Ne. unfold grad0_3d. cbv zeta. fold zsi xsi ysi.
  set (NZ := (dim slow 0 + 1)%Z) in *. set (NX := (dim slow 1 + 1)%Z) in *. set (NY := (dim slow 2 + 1)%Z) in *.
  assert (H0 : okG3 NZ NX NY (full [NZ; NX; NY; 3%Z] (@nofZ R NumR 0))).
  { split; [apply wf_full; repeat constructor; lia | reflexivity]. }
  assert (E0 : get 0 (full [NZ; NX; NY; 3%Z] (@nofZ R NumR 0)) [i; j; k; e] = 0).
  { apply get_full. cbn [inb_sh]. repeat (apply andb_true_intro; split);
      first [reflexivity | apply Z.leb_le; lia | apply Z.ltb_lt; lia]. }
  refine (proj2 _ : get 0 _ [i; j; k; e] = 0).
  instantiate (1 := okG3 NZ NX NY _).
  repeat (apply seed3_keeps; [| lia ..]).
  split; [exact H0 | exact E0].
Qed.

(* ------------------------------------------------------------------------------------------ *)
(* (H1), (H2) at SOLVER level                                                                   *)
(* ------------------------------------------------------------------------------------------ *)
(* the raw components, spelled out *)
Lemma raw3_z_dir tt sg dz G i j k :
  let s := get 0%Z sg [i; j; k; 0%Z] in
  (s <> 0%Z -> raw3_z tt sg dz G i j k = IZR s * (get 0 tt [i; j; k] - get 0 tt [(i - s)%Z; j; k]) / dz) /\
  (s = 0%Z -> raw3_z tt sg dz G i j k = get 0 G [i; j; k; 0%Z]).
Proof. intros s. unfold raw3_z. cbv zeta. fold s. destruct (Z.eqb_spec s 0); split; intros; try reflexivity; contradiction. Qed.
Lemma raw3_x_dir tt sg dx G i j k :
  let s := get 0%Z sg [i; j; k; 1%Z] in
  (s <> 0%Z -> raw3_x tt sg dx G i j k = IZR s * (get 0 tt [i; j; k] - get 0 tt [i; (j - s)%Z; k]) / dx) /\
  (s = 0%Z -> raw3_x tt sg dx G i j k = get 0 G [i; j; k; 1%Z]).
Proof. intros s. unfold raw3_x. cbv zeta. fold s. destruct (Z.eqb_spec s 0); split; intros; try reflexivity; contradiction. Qed.
Lemma raw3_y_dir tt sg dy G i j k :
  let s := get 0%Z sg [i; j; k; 2%Z] in
  (s <> 0%Z -> raw3_y tt sg dy G i j k = IZR s * (get 0 tt [i; j; k] - get 0 tt [i; j; (k - s)%Z]) / dy) /\
  (s = 0%Z -> raw3_y tt sg dy G i j k = get 0 G [i; j; k; 2%Z]).
Proof. intros s. unfold raw3_y. cbv zeta. fold s. destruct (Z.eqb_spec s 0); split; intros; try reflexivity; contradiction. Qed.

Lemma okG3_of_sig nz nx ny (G : arr R) :
  sig G = sig (full [nz; nx; ny; 3%Z] (@nofZ R NumR 0)) -> (0 <= nz)%Z -> (0 <= nx)%Z -> (0 <= ny)%Z -> okG3 nz nx ny G.
Proof.
  intros S Hz Hx Hy. split.
  - apply (sig_wf _ _ S). apply wf_full. repeat constructor; lia.
  - unfold sig in S. injection S as S _. exact S.
Qed.

(* (H1) SOLVER LEVEL *)
Theorem fteik3d_gradient_assembly (slow : arr R) (dz dx dy zsrc xsrc ysrc : R) (nsweep : Z) (tt ttgrad : arr R) (vzero : R) :
  fteik3d slow dz dx dy zsrc xsrc ysrc nsweep true = Ok (tt, ttgrad, vzero) ->
  let sg := snd (final_state3 slow dz dx dy zsrc xsrc ysrc nsweep) in
  let G0 := grad0_3d slow dz dx dy zsrc xsrc ysrc in
  tt = fst (final_state3 slow dz dx dy zsrc xsrc ysrc nsweep) /\
  forall i j k, (0 <= i < dim slow 0 + 1)%Z -> (0 <= j < dim slow 1 + 1)%Z -> (0 <= k < dim slow 2 + 1)%Z ->
    let rz := raw3_z tt sg dz G0 i j k in let rx := raw3_x tt sg dx G0 i j k in let ry := raw3_y tt sg dy G0 i j k in
    get 0 ttgrad [i; j; k; 0%Z] = normed3 rz rx ry rz /\
    get 0 ttgrad [i; j; k; 1%Z] = normed3 rz rx ry rx /\
    get 0 ttgrad [i; j; k; 2%Z] = normed3 rz rx ry ry.
Proof.
  intros E sg G0.
  pose proof (out3_is_inv _ _ _ _ _ (fteik3d_out_true slow dz dx dy zsrc xsrc ysrc nsweep) E) as [Et EG].
  split; [exact Et|]. intros i j k Hi Hj Hk.
  assert (Hok : okG3 (dim slow 0 + 1) (dim slow 1 + 1) (dim slow 2 + 1) G0)
    by (apply okG3_of_sig; [apply grad0_3d_sig | lia ..]).
  clear E. subst tt ttgrad.
  exact (asm3_value _ _ _ _ sg dz dx dy G0 Hok i j k Hi Hj Hk).
Qed.

(* (H2) SOLVER LEVEL: the sign of a returned component against its recorded direction is decided by the upwind relation *)
Theorem fteik3d_gradient_sign_iff (slow : arr R) (dz dx dy zsrc xsrc ysrc : R) (nsweep : Z) (tt ttgrad : arr R) (vzero : R) :
  0 < dz -> 0 < dx -> 0 < dy ->
  fteik3d slow dz dx dy zsrc xsrc ysrc nsweep true = Ok (tt, ttgrad, vzero) ->
  let sg := snd (final_state3 slow dz dx dy zsrc xsrc ysrc nsweep) in
  forall i j k, (0 <= i < dim slow 0 + 1)%Z -> (0 <= j < dim slow 1 + 1)%Z -> (0 <= k < dim slow 2 + 1)%Z ->
    (let s := get 0%Z sg [i; j; k; 0%Z] in let c := get 0 ttgrad [i; j; k; 0%Z] in
     s <> 0%Z -> (0 <= c * IZR s <-> get 0 tt [(i - s)%Z; j; k] <= get 0 tt [i; j; k]) /\
                 (c * IZR s < 0 <-> get 0 tt [i; j; k] < get 0 tt [(i - s)%Z; j; k])) /\
    (let s := get 0%Z sg [i; j; k; 1%Z] in let c := get 0 ttgrad [i; j; k; 1%Z] in
     s <> 0%Z -> (0 <= c * IZR s <-> get 0 tt [i; (j - s)%Z; k] <= get 0 tt [i; j; k]) /\
                 (c * IZR s < 0 <-> get 0 tt [i; j; k] < get 0 tt [i; (j - s)%Z; k])) /\
    (let s := get 0%Z sg [i; j; k; 2%Z] in let c := get 0 ttgrad [i; j; k; 2%Z] in
     s <> 0%Z -> (0 <= c * IZR s <-> get 0 tt [i; j; (k - s)%Z] <= get 0 tt [i; j; k]) /\
                 (c * IZR s < 0 <-> get 0 tt [i; j; k] < get 0 tt [i; j; (k - s)%Z])).
Proof.
  intros Hdz Hdx Hdy E sg i j k Hi Hj Hk.
  destruct (fteik3d_gradient_assembly slow dz dx dy zsrc xsrc ysrc nsweep tt ttgrad vzero E) as [_ A].
  specialize (A i j k Hi Hj Hk). cbv zeta in A.
  split; [|split]; cbv zeta; intros Hs.
  - exact (comp3_sign_z tt sg dz dx dy _ ttgrad i j k A Hdz Hs).
  - exact (comp3_sign_x tt sg dz dx dy _ ttgrad i j k A Hdx Hs).
  - exact (comp3_sign_y tt sg dz dx dy _ ttgrad i j k A Hdy Hs).
Qed.

(* every non-zero recorded direction at the node points to a neighbour that is not later *)
Definition upwind3_at (tt : arr R) (sg : arr Z) (i j k : Z) : Prop :=
  (let s := get 0%Z sg [i; j; k; 0%Z] in s <> 0%Z -> get 0 tt [(i - s)%Z; j; k] <= get 0 tt [i; j; k]) /\
  (let s := get 0%Z sg [i; j; k; 1%Z] in s <> 0%Z -> get 0 tt [i; (j - s)%Z; k] <= get 0 tt [i; j; k]) /\
  (let s := get 0%Z sg [i; j; k; 2%Z] in s <> 0%Z -> get 0 tt [i; j; (k - s)%Z] <= get 0 tt [i; j; k]).

(* (H2) from the upwind relation at the node as a HYPOTHESIS (what is missing: that the sweeps establish it) *)
Theorem fteik3d_gradient_sign_partial (slow : arr R) (dz dx dy zsrc xsrc ysrc : R) (nsweep : Z) (tt ttgrad : arr R) (vzero : R) :
  0 < dz -> 0 < dx -> 0 < dy ->
  fteik3d slow dz dx dy zsrc xsrc ysrc nsweep true = Ok (tt, ttgrad, vzero) ->
  let sg := snd (final_state3 slow dz dx dy zsrc xsrc ysrc nsweep) in
  forall i j k, (0 <= i < dim slow 0 + 1)%Z -> (0 <= j < dim slow 1 + 1)%Z -> (0 <= k < dim slow 2 + 1)%Z ->
    upwind3_at tt sg i j k ->
    0 <= get 0 ttgrad [i; j; k; 0%Z] * IZR (get 0%Z sg [i; j; k; 0%Z]) /\
    0 <= get 0 ttgrad [i; j; k; 1%Z] * IZR (get 0%Z sg [i; j; k; 1%Z]) /\
    0 <= get 0 ttgrad [i; j; k; 2%Z] * IZR (get 0%Z sg [i; j; k; 2%Z]).
Proof.
  intros Hdz Hdx Hdy E sg i j k Hi Hj Hk (Uz & Ux & Uy).
  destruct (fteik3d_gradient_sign_iff slow dz dx dy zsrc xsrc ysrc nsweep tt ttgrad vzero Hdz Hdx Hdy E i j k Hi Hj Hk)
    as (Sz & Sx & Sy).
  fold sg in Sz, Sx, Sy. cbv zeta in *. split; [|split].
  - destruct (Z.eq_dec (get 0%Z sg [i; j; k; 0%Z]) 0) as [-> | Ne]; [change (IZR 0) with 0; lra|].
    apply (proj1 (Sz Ne)), Uz, Ne.
  - destruct (Z.eq_dec (get 0%Z sg [i; j; k; 1%Z]) 0) as [-> | Ne]; [change (IZR 0) with 0; lra|].
    apply (proj1 (Sx Ne)), Ux, Ne.
  - destruct (Z.eq_dec (get 0%Z sg [i; j; k; 2%Z]) 0) as [-> | Ne]; [change (IZR 0) with 0; lra|].
    apply (proj1 (Sy Ne)), Uy, Ne.
Qed.

(* ------------------------------------------------------------------------------------------ *)
(* non-vacuity                                                                                  *)
(* ------------------------------------------------------------------------------------------ *)
(* 1. over R: 2 x 2 x 2 cells (3 x 3 x 3 nodes), unit slowness and spacings, source (1/2, 3/4, 1/4) inside cell (0,0,0)
      and on no node, two sweeps, return_gradient=True: the solver returns (the hypotheses of (H1), (H2) are satisfiable)
      and both conclusions hold at the 27 nodes *)
Example fteik3d_gradient_sign_run_R :
  let slow := full [2; 2; 2]%Z 1 in
  exists t G v,
    fteik3d slow 1 1 1 (1 / 2) (3 / 4) (1 / 4) 2 true = Ok (t, G, v) /\
    let sg := snd (final_state3 slow 1 1 1 (1 / 2) (3 / 4) (1 / 4) 2) in
    let G0 := grad0_3d slow 1 1 1 (1 / 2) (3 / 4) (1 / 4) in
    forall i j k, (0 <= i < 3)%Z -> (0 <= j < 3)%Z -> (0 <= k < 3)%Z ->
      (let rz := raw3_z t sg 1 G0 i j k in let rx := raw3_x t sg 1 G0 i j k in let ry := raw3_y t sg 1 G0 i j k in
       get 0 G [i; j; k; 0%Z] = normed3 rz rx ry rz /\ get 0 G [i; j; k; 1%Z] = normed3 rz rx ry rx /\
       get 0 G [i; j; k; 2%Z] = normed3 rz rx ry ry) /\
      (let s := get 0%Z sg [i; j; k; 0%Z] in let c := get 0 G [i; j; k; 0%Z] in
       s <> 0%Z -> (0 <= c * IZR s <-> get 0 t [(i - s)%Z; j; k] <= get 0 t [i; j; k]) /\
                   (c * IZR s < 0 <-> get 0 t [i; j; k] < get 0 t [(i - s)%Z; j; k])) /\
      (let s := get 0%Z sg [i; j; k; 1%Z] in let c := get 0 G [i; j; k; 1%Z] in
       s <> 0%Z -> (0 <= c * IZR s <-> get 0 t [i; (j - s)%Z; k] <= get 0 t [i; j; k]) /\
                   (c * IZR s < 0 <-> get 0 t [i; j; k] < get 0 t [i; (j - s)%Z; k])) /\
      (let s := get 0%Z sg [i; j; k; 2%Z] in let c := get 0 G [i; j; k; 2%Z] in
       s <> 0%Z -> (0 <= c * IZR s <-> get 0 t [i; j; (k - s)%Z] <= get 0 t [i; j; k]) /\
                   (c * IZR s < 0 <-> get 0 t [i; j; k] < get 0 t [i; j; (k - s)%Z])).
Proof.
  intros slow.
  destruct (proj2 (fteik3d_raises_iff slow 1 1 1 (1 / 2) (3 / 4) (1 / 4) 2 true)) as [[[t G] v] E].
  - unfold inside3d, slow. cbv zeta. cbn [dim full shape nth nleb nofZ nmul NumR].
    repeat (apply andb_true_intro; split); apply Rleb_true; lra.
  - exists t, G, v. split; [exact E|]. intros sg G0 i j k Hi Hj Hk. split.
    + exact (proj2 (fteik3d_gradient_assembly _ _ _ _ _ _ _ _ _ _ _ E) i j k Hi Hj Hk).
    + exact (fteik3d_gradient_sign_iff _ _ _ _ _ _ _ _ _ _ _ Rlt_0_1 Rlt_0_1 Rlt_0_1 E i j k Hi Hj Hk).
Qed.

(* 2. over R, assembly level: 2 x 1 x 2 nodes holding 0, 1 / 2, 5; node (1,0,0) has recorded directions (1, 0, -1).  The z
      direction points to node (0,0,0) (earlier: c * s >= 0), the y direction to node (1,0,1) (LATER: c * s < 0): the
      premise s <> 0 is satisfiable and both sides of the equivalences occur *)
Definition ex3_tt : arr R := mkarr [2; 1; 2]%Z [0; 1; 2; 5].
Definition ex3_sg : arr Z := set (set (full [2; 1; 2; 3]%Z 0%Z) [1; 0; 0; 0]%Z 1%Z) [1; 0; 0; 2]%Z (-1)%Z.
Example asm3_sign_ex_R :
  let G := asm3 ex3_tt ex3_sg 1 1 1 2 1 2 (full [2; 1; 2; 3]%Z 0) in
  get 0%Z ex3_sg [1; 0; 0; 0]%Z = 1%Z /\ get 0%Z ex3_sg [1; 0; 0; 2]%Z = (-1)%Z /\
  0 <= get 0 G [1; 0; 0; 0]%Z * IZR 1 /\ get 0 G [1; 0; 0; 2]%Z * IZR (-1) < 0.
Proof.
  intros G.
  assert (Hok : okG3 2 1 2 (full [2; 1; 2; 3]%Z 0)) by (split; [apply wf_full; repeat constructor; lia | reflexivity]).
  pose proof (asm3_value 2 1 2 ex3_tt ex3_sg 1 1 1 _ Hok 1 0 0 ltac:(lia) ltac:(lia) ltac:(lia)) as D. fold G in D.
  assert (Sz : get 0%Z ex3_sg [1; 0; 0; 0]%Z = 1%Z) by reflexivity.
  assert (Sy : get 0%Z ex3_sg [1; 0; 0; 2]%Z = (-1)%Z) by reflexivity.
  split; [exact Sz|]. split; [exact Sy|]. split.
  - pose proof (comp3_sign_z ex3_tt ex3_sg 1 1 1 _ G 1 0 0 D ltac:(lra)) as C. cbv zeta in C. rewrite Sz in C.
    apply (proj1 (C ltac:(lia))).
    change (get 0 ex3_tt [(1 - 1)%Z; 0%Z; 0%Z]) with 0. change (get 0 ex3_tt [1%Z; 0%Z; 0%Z]) with 2. lra.
  - pose proof (comp3_sign_y ex3_tt ex3_sg 1 1 1 _ G 1 0 0 D ltac:(lra)) as C. cbv zeta in C. rewrite Sy in C.
    apply (proj2 (C ltac:(lia))).
    change (get 0 ex3_tt [1%Z; 0%Z; (0 - -1)%Z]) with 5. change (get 0 ex3_tt [1%Z; 0%Z; 0%Z]) with 2. lra.
Qed.

(* 3. binary64 (lib/Num.v NumF, evaluated by vm_compute), the model of example 1: non-zero directions ARE recorded by the
      sweeps (node (2,2,2): (1, 1, 1); node (0,0,2): (0, -1, 1)), and in this run every recorded direction points to a
      neighbour that is not later and every returned component agrees in sign with its direction (an observation about
      one run, not a theorem about the solver) *)
Module FloatRun3.
Import Coq.Floats.PrimFloat.
Module PF := Coq.Floats.PrimFloat.
Open Scope Z_scope.
Definition slowF : arr float := full [2; 2; 2] 1.0%float.
Definition st : arr float * arr Z :=
  final_state3 slowF 1.0%float 1.0%float 1.0%float 0.5%float 0.75%float 0.25%float 2.
Definition run : res (arr float * arr float * float) :=
  fteik3d slowF 1.0%float 1.0%float 1.0%float 0.5%float 0.75%float 0.25%float 2 true.
Definition run_tt : arr float := match run with Ok (t, _, _) => t | _ => full [] 0%float end.
Definition run_grad : arr float := match run with Ok (_, G, _) => G | _ => full [] 0%float end.
Definition nb (i j k c s : Z) : list Z :=
  if c =? 0 then [i - s; j; k] else if c =? 1 then [i; j - s; k] else [i; j; k - s].
Definition axis_ok (i j k c : Z) : bool :=
  let s := get 0 (snd st) [i; j; k; c] in
  if s =? 0 then true
  else PF.leb (get 0%float run_tt (nb i j k c s)) (get 0%float run_tt [i; j; k]) &&
       PF.leb 0%float (PF.mul (get 0%float run_grad [i; j; k; c]) (PF.of_uint63 (Uint63.of_Z (s + 1)) - 1)%float).

Example recorded_signs_binary64 :
  dat run_tt = dat (fst st) /\
  (get 0 (snd st) [2; 2; 2; 0], get 0 (snd st) [2; 2; 2; 1], get 0 (snd st) [2; 2; 2; 2]) = (1, 1, 1) /\
  (get 0 (snd st) [0; 0; 2; 0], get 0 (snd st) [0; 0; 2; 1], get 0 (snd st) [0; 0; 2; 2]) = (0, -1, 1) /\
  forallb (fun i => forallb (fun j => forallb (fun k => forallb (fun c => axis_ok i j k c) [0; 1; 2]) [0; 1; 2]) [0; 1; 2])
          [0; 1; 2] = true.
Proof. vm_compute. repeat split. Qed.
End FloatRun3.

Print Assumptions asm3_value.
Print Assumptions fteik3d_out_true.
Print Assumptions fteik3d_gradient_assembly.
Print Assumptions fteik3d_gradient_sign_iff.
Print Assumptions fteik3d_gradient_sign_partial.
Print Assumptions grad0_3d_off_cell.
Print Assumptions fteik3d_gradient_sign_run_R.
Print Assumptions asm3_sign_ex_R.
Print Assumptions FloatRun3.recorded_signs_binary64.
