(* Local update operators of the 3D fast-sweeping eikonal solver (gen/Fteik3d.v: t_ana, t_anad, sweep) over the
   reals (T := R, instance NumR).  All statements are about the GENERATED definitions.

     A. t_ana_exact, t_anad_exact                         analytic time = slowness * distance, and its gradient
        sweep_tt_eq                                        THE TIE: sweep writes min(t0, t1d, t2d, t3d) with the operators below
        t2d_zx/zy/xy_plane_wave                            the three 2D operators are exact on plane waves travelling in their plane
        op3_exact_on_plane_wave, sweep_uses_op3, sweep_op3_plane_wave
                                                           the 3D operator is exact on every plane wave s (a z + b x + c y)
        op3 / op3_raw                                      op3 is the operator of the code, i.e. the formula op3_raw followed by the
                                                           causality guard `if t3d < tnve: t3d = Big`
        op3_guard_passes_plane_wave                        the guard never fires on a plane wave with non-negative direction cosines
        op3_guard_noop_cubic                               the guard is a no-op on cubic cells (ta + tb + tc = 3 tnve)
     B. t_ana_scale_slowness/_length, t_anad_scale_slowness/_length
     C. t_ana_swap_zx/_zy/_xy                              invariance under the transposition of any two axes

   Orientation (sweep): tv = tt[i-sgntz,j,k], te = tt[i,j-sgntx,k], tn = tt[i,j,k-sgnty],
   tev, ten, tnv the three face diagonals, tnve the cube diagonal. *)
From Coq Require Import ZArith List Bool Lia Reals Lra Psatz.
From FT.lib Require Import Num Arr.
From FT.gen Require Import Fteik3d.
From FT.proofs Require OperatorsR.
Import ListNotations.
Open Scope R_scope.

Implicit Types (dz dx dy zsa xsa ysa v vzero vref c s a b t tv te tn tev ten tnv tnve x y : R).
Implicit Types (dz2i dx2i dy2i dzxi dzyi dxyi dsum : R).
Implicit Types (i j k sgntz sgntx sgnty sgnvz sgnvx sgnvy nz nx ny : Z) (tt slow : arr R).

Ltac numR := cbn [nadd nsub nmul ndiv nsqrt nabs nneg nltb nleb neqb nofZ nofQ NumR] in *.
Ltac unnum := unfold nsq, ngtb, ngeb, nneb in *; numR.

Notation sqrt_scale := OperatorsR.sqrt_scale.
Notation sqrt_scale' := OperatorsR.sqrt_scale'.
Notation four_point := OperatorsR.four_point.

(* ------------------------------------------------------------------------------------------ *)
(* A1  analytic solution                                                                        *)
(* ------------------------------------------------------------------------------------------ *)
Theorem t_ana_exact i j k dz dx dy zsa xsa ysa v :
  t_ana i j k dz dx dy zsa xsa ysa v
  = v * sqrt ((dz * (IZR i - zsa)) ^ 2 + (dx * (IZR j - xsa)) ^ 2 + (dy * (IZR k - ysa)) ^ 2).
Proof. unfold t_ana. unnum. f_equal. f_equal. ring. Qed.

Theorem t_anad_exact i j k dz dx dy zsa xsa ysa v :
  t_anad i j k dz dx dy zsa xsa ysa v =
    (t_ana i j k dz dx dy zsa xsa ysa v,
     (if Rlt_dec 0 (t_ana i j k dz dx dy zsa xsa ysa v)
      then v ^ 2 * (IZR i - zsa) * dz / t_ana i j k dz dx dy zsa xsa ysa v else 0),
     (if Rlt_dec 0 (t_ana i j k dz dx dy zsa xsa ysa v)
      then v ^ 2 * (IZR j - xsa) * dx / t_ana i j k dz dx dy zsa xsa ysa v else 0),
     (if Rlt_dec 0 (t_ana i j k dz dx dy zsa xsa ysa v)
      then v ^ 2 * (IZR k - ysa) * dy / t_ana i j k dz dx dy zsa xsa ysa v else 0)).
Proof.
  unfold t_anad. set (t := t_ana i j k dz dx dy zsa xsa ysa v). cbv zeta. unnum. unfold Rltb.
  destruct (Rlt_dec 0 t); cbn [fst snd]; [|reflexivity].
  f_equal; [f_equal; [f_equal|]|]; unfold Rdiv; ring.
Qed.

Corollary t_anad_fst i j k dz dx dy zsa xsa ysa v :
  fst (fst (fst (t_anad i j k dz dx dy zsa xsa ysa v))) = t_ana i j k dz dx dy zsa xsa ysa v.
Proof. rewrite t_anad_exact. reflexivity. Qed.

(* ------------------------------------------------------------------------------------------ *)
(* B1  unit invariance                                                                          *)
(* ------------------------------------------------------------------------------------------ *)
Theorem t_ana_scale_slowness c i j k dz dx dy zsa xsa ysa v :
  t_ana i j k dz dx dy zsa xsa ysa (c * v) = c * t_ana i j k dz dx dy zsa xsa ysa v.
Proof. unfold t_ana. unnum. ring. Qed.

Theorem t_ana_scale_length c i j k dz dx dy zsa xsa ysa v : 0 <= c ->
  t_ana i j k (c * dz) (c * dx) (c * dy) zsa xsa ysa v = c * t_ana i j k dz dx dy zsa xsa ysa v.
Proof.
  intros Hc. unfold t_ana. unnum.
  rewrite (sqrt_scale' c (dz * (IZR i - zsa) * (dz * (IZR i - zsa)) + dx * (IZR j - xsa) * (dx * (IZR j - xsa))
                          + dy * (IZR k - ysa) * (dy * (IZR k - ysa)))) by (auto; ring).
  ring.
Qed.

Theorem t_anad_scale_slowness c i j k dz dx dy zsa xsa ysa v : 0 < c ->
  t_anad i j k dz dx dy zsa xsa ysa (c * v) =
  let '(t, tzc, txc, tyc) := t_anad i j k dz dx dy zsa xsa ysa v in (c * t, c * tzc, c * txc, c * tyc).
Proof.
  intros Hc. rewrite !t_anad_exact. rewrite t_ana_scale_slowness.
  set (t := t_ana i j k dz dx dy zsa xsa ysa v).
  destruct (Rlt_dec 0 t) as [P|N], (Rlt_dec 0 (c * t)) as [P'|N']; try (exfalso; nra).
  - f_equal; [f_equal; [f_equal|]|]; field; lra.
  - f_equal; [f_equal; [f_equal|]|]; ring.
Qed.

Theorem t_anad_scale_length c i j k dz dx dy zsa xsa ysa v : 0 < c ->
  t_anad i j k (c * dz) (c * dx) (c * dy) zsa xsa ysa v =
  let '(t, tzc, txc, tyc) := t_anad i j k dz dx dy zsa xsa ysa v in (c * t, tzc, txc, tyc).
Proof.
  intros Hc. rewrite !t_anad_exact. rewrite t_ana_scale_length by lra.
  set (t := t_ana i j k dz dx dy zsa xsa ysa v).
  destruct (Rlt_dec 0 t) as [P|N], (Rlt_dec 0 (c * t)) as [P'|N']; try (exfalso; nra).
  - f_equal; [f_equal; [f_equal|]|]; field; lra.
  - reflexivity.
Qed.

(* ------------------------------------------------------------------------------------------ *)
(* C  no axis is privileged                                                                     *)
(* ------------------------------------------------------------------------------------------ *)
Theorem t_ana_swap_zx i j k dz dx dy zsa xsa ysa v :
  t_ana i j k dz dx dy zsa xsa ysa v = t_ana j i k dx dz dy xsa zsa ysa v.
Proof. unfold t_ana. unnum. f_equal. f_equal. ring. Qed.
Theorem t_ana_swap_zy i j k dz dx dy zsa xsa ysa v :
  t_ana i j k dz dx dy zsa xsa ysa v = t_ana k j i dy dx dz ysa xsa zsa v.
Proof. unfold t_ana. unnum. f_equal. f_equal. ring. Qed.
Theorem t_ana_swap_xy i j k dz dx dy zsa xsa ysa v :
  t_ana i j k dz dx dy zsa xsa ysa v = t_ana i k j dz dy dx zsa ysa xsa v.
Proof. unfold t_ana. unnum. f_equal. f_equal. ring. Qed.

Theorem t_anad_swap_zx i j k dz dx dy zsa xsa ysa v :
  t_anad i j k dz dx dy zsa xsa ysa v
  = let '(t, txc, tzc, tyc) := t_anad j i k dx dz dy xsa zsa ysa v in (t, tzc, txc, tyc).
Proof. rewrite !t_anad_exact. rewrite (t_ana_swap_zx j i). reflexivity. Qed.
Theorem t_anad_swap_zy i j k dz dx dy zsa xsa ysa v :
  t_anad i j k dz dx dy zsa xsa ysa v
  = let '(t, tyc, txc, tzc) := t_anad k j i dy dx dz ysa xsa zsa v in (t, tzc, txc, tyc).
Proof. rewrite !t_anad_exact. rewrite (t_ana_swap_zy k j i). reflexivity. Qed.
Theorem t_anad_swap_xy i j k dz dx dy zsa xsa ysa v :
  t_anad i j k dz dx dy zsa xsa ysa v
  = let '(t, tzc, tyc, txc) := t_anad i k j dz dy dx zsa ysa xsa v in (t, tzc, txc, tyc).
Proof. rewrite !t_anad_exact. rewrite (t_ana_swap_xy i k j). reflexivity. Qed.

(* ------------------------------------------------------------------------------------------ *)
(* The operators used by the 3D `sweep` and the characterisation of `sweep` in terms of them    *)
(* ------------------------------------------------------------------------------------------ *)
Definition nb_v tt i j k sgntz : R := get 0 tt [(i - sgntz)%Z; j; k].
Definition nb_e tt i j k sgntx : R := get 0 tt [i; (j - sgntx)%Z; k].
Definition nb_n tt i j k sgnty : R := get 0 tt [i; j; (k - sgnty)%Z].
Definition nb_ev tt i j k sgntz sgntx : R := get 0 tt [(i - sgntz)%Z; (j - sgntx)%Z; k].
Definition nb_en tt i j k sgntx sgnty : R := get 0 tt [i; (j - sgntx)%Z; (k - sgnty)%Z].
Definition nb_nv tt i j k sgntz sgnty : R := get 0 tt [(i - sgntz)%Z; j; (k - sgnty)%Z].
Definition nb_nve tt i j k sgntz sgntx sgnty : R := get 0 tt [(i - sgntz)%Z; (j - sgntx)%Z; (k - sgnty)%Z].

(* slowness used along an edge (min over the four cells adjoining it), in a face (two cells), in the cell *)
Definition edge_s_z slow i j k sgnvz nx ny : R :=
  pymin4 (get 0 slow [(i - sgnvz)%Z; Z.max (j - 1) 0; Z.max (k - 1) 0]) (get 0 slow [(i - sgnvz)%Z; Z.max (j - 1) 0; Z.min k (ny - 2)])
         (get 0 slow [(i - sgnvz)%Z; Z.min j (nx - 2); Z.max (k - 1) 0]) (get 0 slow [(i - sgnvz)%Z; Z.min j (nx - 2); Z.min k (ny - 2)]).
Definition edge_s_x slow i j k sgnvx nz ny : R :=
  pymin4 (get 0 slow [Z.max (i - 1) 0; (j - sgnvx)%Z; Z.max (k - 1) 0]) (get 0 slow [Z.min i (nz - 2); (j - sgnvx)%Z; Z.max (k - 1) 0])
         (get 0 slow [Z.max (i - 1) 0; (j - sgnvx)%Z; Z.min k (ny - 2)]) (get 0 slow [Z.min i (nz - 2); (j - sgnvx)%Z; Z.min k (ny - 2)]).
Definition edge_s_y slow i j k sgnvy nz nx : R :=
  pymin4 (get 0 slow [Z.max (i - 1) 0; Z.max (j - 1) 0; (k - sgnvy)%Z]) (get 0 slow [Z.max (i - 1) 0; Z.min j (nx - 2); (k - sgnvy)%Z])
         (get 0 slow [Z.min i (nz - 2); Z.max (j - 1) 0; (k - sgnvy)%Z]) (get 0 slow [Z.min i (nz - 2); Z.min j (nx - 2); (k - sgnvy)%Z]).
Definition face_s_zx slow i j k sgnvz sgnvx ny : R :=
  pymin2 (get 0 slow [(i - sgnvz)%Z; (j - sgnvx)%Z; Z.max (k - 1) 0]) (get 0 slow [(i - sgnvz)%Z; (j - sgnvx)%Z; Z.min k (ny - 2)]).
Definition face_s_zy slow i j k sgnvz sgnvy nx : R :=
  pymin2 (get 0 slow [(i - sgnvz)%Z; Z.max (j - 1) 0; (k - sgnvy)%Z]) (get 0 slow [(i - sgnvz)%Z; Z.min j (nx - 2); (k - sgnvy)%Z]).
Definition face_s_xy slow i j k sgnvx sgnvy nz : R :=
  pymin2 (get 0 slow [Z.max (i - 1) 0; (j - sgnvx)%Z; (k - sgnvy)%Z]) (get 0 slow [Z.min i (nz - 2); (j - sgnvx)%Z; (k - sgnvy)%Z]).
Definition cell_s slow i j k sgnvz sgnvx sgnvy : R := get 0 slow [(i - sgnvz)%Z; (j - sgnvx)%Z; (k - sgnvy)%Z].

Definition t1d tt slow dz dx dy i j k sgnvz sgnvx sgnvy sgntz sgntx sgnty nz nx ny : R :=
  pymin3 (nb_v tt i j k sgntz + dz * edge_s_z slow i j k sgnvz nx ny)
         (nb_e tt i j k sgntx + dx * edge_s_x slow i j k sgnvx nz ny)
         (nb_n tt i j k sgnty + dy * edge_s_y slow i j k sgnvy nz nx).

(* the second syntactic form of the 2D operator used for the ZY and XY planes: A, B are the two extrapolated times *)
Definition op2 (A B d1 d2 vref : R) : R :=
  ((A * d1 + B * d2) + sqrt (4 * (vref * vref) * (d1 + d2) - d1 * d2 * ((A - B) * (A - B)))) / (d1 + d2).
Definition t2d_zx tv te tev vref dz dx dz2i dx2i : R :=
  if Rltb tv (te + dx * vref) && Rltb te (tv + dz * vref) then four_point tv te tev vref dz2i dx2i else Big.
Definition t2d_zy tv tn tnv vref dz dy dz2i dy2i : R :=
  if Rltb tv (tn + dy * vref) && Rltb tn (tv + dz * vref) then op2 (tv - tn + tnv) (tn - tv + tnv) dz2i dy2i vref else Big.
Definition t2d_xy te tn ten vref dx dy dx2i dy2i : R :=
  if Rltb te (tn + dy * vref) && Rltb tn (te + dx * vref) then op2 (te - tn + ten) (tn - te + ten) dx2i dy2i vref else Big.

(* the 3D operator *)
Definition op3_a tv te tn tev ten tnv tnve : R := te - 1 / 2 * tn + 1 / 2 * ten - 1 / 2 * tv + 1 / 2 * tev - tnv + tnve.
Definition op3_b tv te tn tev ten tnv tnve : R := tv - 1 / 2 * tn + 1 / 2 * tnv - 1 / 2 * te + 1 / 2 * tev - ten + tnve.
Definition op3_c tv te tn tev ten tnv tnve : R := tn - 1 / 2 * te + 1 / 2 * ten - 1 / 2 * tv + 1 / 2 * tnv - tev + tnve.
Definition op3_t2 vref dsum : R := vref * vref * dsum * 9.
Definition op3_t3 tv te tn tev ten tnv tnve dzxi dzyi dxyi : R :=
  let ta := op3_a tv te tn tev ten tnv tnve in let tb := op3_b tv te tn tev ten tnv tnve in
  let tc := op3_c tv te tn tev ten tnv tnve in
  dzxi * ((ta - tb) * (ta - tb)) + dzyi * ((tb - tc) * (tb - tc)) + dxyi * ((ta - tc) * (ta - tc)).
(* the unguarded formula  (t1 + sqrt (t2 - t3)) / dsum *)
Definition op3_raw tv te tn tev ten tnv tnve vref dz2i dx2i dy2i dzxi dzyi dxyi dsum : R :=
  let ta := op3_a tv te tn tev ten tnv tnve in let tb := op3_b tv te tn tev ten tnv tnve in
  let tc := op3_c tv te tn tev ten tnv tnve in
  ((tb * dz2i + ta * dx2i + tc * dy2i)
   + sqrt (op3_t2 vref dsum - op3_t3 tv te tn tev ten tnv tnve dzxi dzyi dxyi)) / dsum.
(* the operator of the code: the causality guard  `if t3d < tnve: t3d = Big`  rejects a candidate that is earlier than
   the time at the diagonally opposite corner of the cell *)
Definition op3 tv te tn tev ten tnv tnve vref dz2i dx2i dy2i dzxi dzyi dxyi dsum : R :=
  let t := op3_raw tv te tn tev ten tnv tnve vref dz2i dx2i dy2i dzxi dzyi dxyi dsum in
  if Rltb t tnve then Big else t.

Definition sweep_t2d tt slow dz dx dy dz2i dx2i dy2i i j k sgnvz sgnvx sgnvy sgntz sgntx sgnty nz nx ny : R :=
  let tv := nb_v tt i j k sgntz in let te := nb_e tt i j k sgntx in let tn := nb_n tt i j k sgnty in
  pymin3 (t2d_zx tv te (nb_ev tt i j k sgntz sgntx) (face_s_zx slow i j k sgnvz sgnvx ny) dz dx dz2i dx2i)
         (t2d_zy tv tn (nb_nv tt i j k sgntz sgnty) (face_s_zy slow i j k sgnvz sgnvy nx) dz dy dz2i dy2i)
         (t2d_xy te tn (nb_en tt i j k sgntx sgnty) (face_s_xy slow i j k sgnvx sgnvy nz) dx dy dx2i dy2i).
Definition sweep_t3d tt slow dz dx dy dz2i dx2i dy2i dzxi dzyi dxyi dsum
           i j k sgnvz sgnvx sgnvy sgntz sgntx sgnty nz nx ny : R :=
  let tv := nb_v tt i j k sgntz in let te := nb_e tt i j k sgntx in let tn := nb_n tt i j k sgnty in
  let tev := nb_ev tt i j k sgntz sgntx in let ten := nb_en tt i j k sgntx sgnty in
  let tnv := nb_nv tt i j k sgntz sgnty in let tnve := nb_nve tt i j k sgntz sgntx sgnty in
  let vref := cell_s slow i j k sgnvz sgnvx sgnvy in
  if Rltb (pymax3 tv te tn)
          (pymin2 (t1d tt slow dz dx dy i j k sgnvz sgnvx sgnvy sgntz sgntx sgnty nz nx ny)
                  (sweep_t2d tt slow dz dx dy dz2i dx2i dy2i i j k sgnvz sgnvx sgnvy sgntz sgntx sgnty nz nx ny))
  then if Rleb (op3_t3 tv te tn tev ten tnv tnve dzxi dzyi dxyi) (op3_t2 vref dsum)
       then op3 tv te tn tev ten tnv tnve vref dz2i dx2i dy2i dzxi dzyi dxyi dsum
       else Big
  else Big.

(* THE TIE: the generated sweep writes min(t0, t1d, t2d, t3d) with exactly these operators (by computation) *)
Theorem sweep_tt_eq tt ttsgn slow dz dx dy dz2i dx2i dy2i dzxi dzyi dxyi dsum
        i j k sgnvz sgnvx sgnvy sgntz sgntx sgnty nz nx ny grad :
  fst (sweep tt ttsgn slow (dz, dx, dy, dz2i, dx2i, dy2i, dzxi, dzyi, dxyi, dsum)
             i j k sgnvz sgnvx sgnvy sgntz sgntx sgnty nz nx ny grad)
  = set tt [i; j; k]
      (pymin4 (get 0 tt [i; j; k])
              (t1d tt slow dz dx dy i j k sgnvz sgnvx sgnvy sgntz sgntx sgnty nz nx ny)
              (sweep_t2d tt slow dz dx dy dz2i dx2i dy2i i j k sgnvz sgnvx sgnvy sgntz sgntx sgnty nz nx ny)
              (sweep_t3d tt slow dz dx dy dz2i dx2i dy2i dzxi dzyi dxyi dsum
                         i j k sgnvz sgnvx sgnvy sgntz sgntx sgnty nz nx ny)).
Proof.
  unfold sweep. cbv zeta.
  lazymatch goal with |- fst (?a, _) = ?r => change (a = r) end.
  reflexivity.
Qed.

(* ------------------------------------------------------------------------------------------ *)
(* A5  exactness on plane waves                                                                 *)
(* ------------------------------------------------------------------------------------------ *)
Definition dargs_of dz dx dy : R * R * R * R * R * R * R * R * R * R :=
  (dz, dx, dy, 1 / dz / dz, 1 / dx / dx, 1 / dy / dy,
   1 / dz / dz * (1 / dx / dx), 1 / dz / dz * (1 / dy / dy), 1 / dx / dx * (1 / dy / dy),
   1 / dz / dz + 1 / dx / dx + 1 / dy / dy).

(* the second syntactic form is the same operator *)
Lemma op2_four_point tv tn tnv d1 d2 vref : op2 (tv - tn + tnv) (tn - tv + tnv) d1 d2 vref = four_point tv tn tnv vref d1 d2.
Proof. unfold op2, OperatorsR.four_point. cbv zeta. f_equal. f_equal; [ring | f_equal; ring]. Qed.

(* the three 2D operators: exact on a plane wave travelling in their plane (the conditions are strict here, so
   both direction components must be positive; an axis-parallel wave is handled by the 1D operators) *)
Theorem t2d_zx_plane_wave (T0 : R) s a b dz dx :
  0 < dz -> 0 < dx -> 0 < s -> 0 < a -> 0 < b -> a * a + b * b = 1 ->
  t2d_zx (T0 + s * b * dx) (T0 + s * a * dz) T0 s dz dx (1 / dz / dz) (1 / dx / dx) = T0 + s * (a * dz + b * dx).
Proof.
  intros Hdz Hdx Hs Ha Hb Hn. unfold t2d_zx.
  assert (Ha1 : a <= 1) by nra. assert (Hb1 : b <= 1) by nra.
  assert (P1 : 0 <= s * dx * (1 - b)) by (apply Rmult_le_pos; [apply Rmult_le_pos|]; lra).
  assert (P2 : 0 <= s * dz * (1 - a)) by (apply Rmult_le_pos; [apply Rmult_le_pos|]; lra).
  assert (P3 : 0 < s * a * dz) by (apply Rmult_lt_0_compat; [apply Rmult_lt_0_compat|]; lra).
  assert (P4 : 0 < s * b * dx) by (apply Rmult_lt_0_compat; [apply Rmult_lt_0_compat|]; lra).
  rewrite (proj2 (Rltb_true _ _)) by lra. rewrite (proj2 (Rltb_true _ _)) by lra. cbn [andb].
  apply OperatorsR.four_point_exact_on_plane_wave; lra.
Qed.

Theorem t2d_zy_plane_wave (T0 : R) s a c dz dy :
  0 < dz -> 0 < dy -> 0 < s -> 0 < a -> 0 < c -> a * a + c * c = 1 ->
  t2d_zy (T0 + s * c * dy) (T0 + s * a * dz) T0 s dz dy (1 / dz / dz) (1 / dy / dy) = T0 + s * (a * dz + c * dy).
Proof.
  intros Hdz Hdy Hs Ha Hc Hn. unfold t2d_zy.
  assert (Ha1 : a <= 1) by nra. assert (Hc1 : c <= 1) by nra.
  assert (P1 : 0 <= s * dy * (1 - c)) by (apply Rmult_le_pos; [apply Rmult_le_pos|]; lra).
  assert (P2 : 0 <= s * dz * (1 - a)) by (apply Rmult_le_pos; [apply Rmult_le_pos|]; lra).
  assert (P3 : 0 < s * a * dz) by (apply Rmult_lt_0_compat; [apply Rmult_lt_0_compat|]; lra).
  assert (P4 : 0 < s * c * dy) by (apply Rmult_lt_0_compat; [apply Rmult_lt_0_compat|]; lra).
  rewrite (proj2 (Rltb_true _ _)) by lra. rewrite (proj2 (Rltb_true _ _)) by lra. cbn [andb].
  rewrite op2_four_point. apply OperatorsR.four_point_exact_on_plane_wave; lra.
Qed.

Theorem t2d_xy_plane_wave (T0 : R) s b c dx dy :
  0 < dx -> 0 < dy -> 0 < s -> 0 < b -> 0 < c -> b * b + c * c = 1 ->
  t2d_xy (T0 + s * c * dy) (T0 + s * b * dx) T0 s dx dy (1 / dx / dx) (1 / dy / dy) = T0 + s * (b * dx + c * dy).
Proof.
  intros Hdx Hdy Hs Hb Hc Hn. unfold t2d_xy.
  assert (Hb1 : b <= 1) by nra. assert (Hc1 : c <= 1) by nra.
  assert (P1 : 0 <= s * dy * (1 - c)) by (apply Rmult_le_pos; [apply Rmult_le_pos|]; lra).
  assert (P2 : 0 <= s * dx * (1 - b)) by (apply Rmult_le_pos; [apply Rmult_le_pos|]; lra).
  assert (P3 : 0 < s * b * dx) by (apply Rmult_lt_0_compat; [apply Rmult_lt_0_compat|]; lra).
  assert (P4 : 0 < s * c * dy) by (apply Rmult_lt_0_compat; [apply Rmult_lt_0_compat|]; lra).
  rewrite (proj2 (Rltb_true _ _)) by lra. rewrite (proj2 (Rltb_true _ _)) by lra. cbn [andb].
  rewrite op2_four_point. apply OperatorsR.four_point_exact_on_plane_wave; lra.
Qed.

(* the 3D operator on  T(z,x,y) = s (a z + b x + c y):  with T0 the value at the cube-diagonal neighbour,
     tev = T0 + s c dy, ten = T0 + s a dz, tnv = T0 + s b dx,
     tv = T0 + s (b dx + c dy), te = T0 + s (a dz + c dy), tn = T0 + s (a dz + b dx);  node: T0 + s (a dz + b dx + c dy) *)
Section PlaneWave3.
Variables (T0 s a b c dz dx dy : R).
Hypotheses (Hdz : 0 < dz) (Hdx : 0 < dx) (Hdy : 0 < dy) (Hs : 0 <= s) (Ha : 0 <= a) (Hb : 0 <= b) (Hc : 0 <= c)
           (Hn : a * a + b * b + c * c = 1).
Let tv := T0 + s * (b * dx + c * dy).
Let te := T0 + s * (a * dz + c * dy).
Let tn := T0 + s * (a * dz + b * dx).
Let tev := T0 + s * c * dy.
Let ten := T0 + s * a * dz.
Let tnv := T0 + s * b * dx.
Let dz2i := 1 / dz / dz.
Let dx2i := 1 / dx / dx.
Let dy2i := 1 / dy / dy.

Lemma op3_radicand_plane_wave :
  op3_t2 s (dz2i + dx2i + dy2i) - op3_t3 tv te tn tev ten tnv T0 (dz2i * dx2i) (dz2i * dy2i) (dx2i * dy2i)
  = (3 * s * (a / dz + b / dx + c / dy)) * (3 * s * (a / dz + b / dx + c / dy)).
Proof.
  unfold op3_t2, op3_t3, op3_a, op3_b, op3_c, tv, te, tn, tev, ten, tnv, dz2i, dx2i, dy2i. cbv zeta.
  replace (s * s) with (s * s * (a * a + b * b + c * c)) by (rewrite Hn; ring). field. lra.
Qed.

(* the test  t2 >= t3  of the code always succeeds on a plane wave *)
Lemma op3_admissible_plane_wave :
  op3_t3 tv te tn tev ten tnv T0 (dz2i * dx2i) (dz2i * dy2i) (dx2i * dy2i) <= op3_t2 s (dz2i + dx2i + dy2i).
Proof. pose proof op3_radicand_plane_wave as E.
  pose proof (Rle_0_sqr (3 * s * (a / dz + b / dx + c / dy))) as P. unfold Rsqr in P. lra. Qed.

Lemma op3_raw_exact_on_plane_wave :
  op3_raw tv te tn tev ten tnv T0 s dz2i dx2i dy2i (dz2i * dx2i) (dz2i * dy2i) (dx2i * dy2i) (dz2i + dx2i + dy2i)
  = T0 + s * (a * dz + b * dx + c * dy).
Proof.
  unfold op3_raw. cbv zeta. rewrite op3_radicand_plane_wave, sqrt_square.
  - unfold op3_a, op3_b, op3_c, tv, te, tn, tev, ten, tnv, dz2i, dx2i, dy2i. field.
    split; [lra|]. split; [lra|]. split; [lra|].
    assert (0 < (dx * dx + dz * dz) * (dy * dy)) by (apply Rmult_lt_0_compat; nra).
    assert (0 < dz * dz * (dx * dx)) by (apply Rmult_lt_0_compat; nra). lra.
  - assert (0 <= a / dz) by (apply Rmult_le_pos; [lra | left; apply Rinv_0_lt_compat; lra]).
    assert (0 <= b / dx) by (apply Rmult_le_pos; [lra | left; apply Rinv_0_lt_compat; lra]).
    assert (0 <= c / dy) by (apply Rmult_le_pos; [lra | left; apply Rinv_0_lt_compat; lra]).
    apply Rmult_le_pos; [lra | lra].
Qed.

(* the causality guard never fires on such a plane wave: the exact time at the node is not earlier than the time T0 at
   the diagonally opposite corner *)
Lemma op3_guard_passes_plane_wave :
  T0 <= op3_raw tv te tn tev ten tnv T0 s dz2i dx2i dy2i (dz2i * dx2i) (dz2i * dy2i) (dx2i * dy2i) (dz2i + dx2i + dy2i).
Proof.
  rewrite op3_raw_exact_on_plane_wave.
  assert (0 <= a * dz) by (apply Rmult_le_pos; lra). assert (0 <= b * dx) by (apply Rmult_le_pos; lra).
  assert (0 <= c * dy) by (apply Rmult_le_pos; lra).
  assert (0 <= s * (a * dz + b * dx + c * dy)) by (apply Rmult_le_pos; lra). lra.
Qed.

Theorem op3_exact_on_plane_wave :
  op3 tv te tn tev ten tnv T0 s dz2i dx2i dy2i (dz2i * dx2i) (dz2i * dy2i) (dx2i * dy2i) (dz2i + dx2i + dy2i)
  = T0 + s * (a * dz + b * dx + c * dy).
Proof.
  unfold op3. cbv zeta. rewrite (proj2 (Rltb_false _ _) op3_guard_passes_plane_wave).
  apply op3_raw_exact_on_plane_wave.
Qed.
End PlaneWave3.

(* the guard is a no-op on cubic cells: with equal spacings ta + tb + tc = 3 tnve, so the unguarded candidate is
   tnve + sqrt (t2 - t3) / dsum >= tnve (dzxi, dzyi, dxyi, vref and the seven neighbour values are arbitrary) *)
Theorem op3_guard_noop_cubic tv te tn tev ten tnv tnve vref d dzxi dzyi dxyi :
  0 < d ->
  op3_a tv te tn tev ten tnv tnve + op3_b tv te tn tev ten tnv tnve + op3_c tv te tn tev ten tnv tnve = 3 * tnve /\
  op3_raw tv te tn tev ten tnv tnve vref d d d dzxi dzyi dxyi (d + d + d)
  = tnve + sqrt (op3_t2 vref (d + d + d) - op3_t3 tv te tn tev ten tnv tnve dzxi dzyi dxyi) / (d + d + d) /\
  tnve <= op3_raw tv te tn tev ten tnv tnve vref d d d dzxi dzyi dxyi (d + d + d) /\
  op3 tv te tn tev ten tnv tnve vref d d d dzxi dzyi dxyi (d + d + d)
  = op3_raw tv te tn tev ten tnv tnve vref d d d dzxi dzyi dxyi (d + d + d).
Proof.
  intros Hd.
  assert (Esum : op3_a tv te tn tev ten tnv tnve + op3_b tv te tn tev ten tnv tnve + op3_c tv te tn tev ten tnv tnve
                 = 3 * tnve) by (unfold op3_a, op3_b, op3_c; field).
  assert (Eraw : op3_raw tv te tn tev ten tnv tnve vref d d d dzxi dzyi dxyi (d + d + d)
                 = tnve + sqrt (op3_t2 vref (d + d + d) - op3_t3 tv te tn tev ten tnv tnve dzxi dzyi dxyi) / (d + d + d)).
  { unfold op3_raw. cbv zeta.
    set (r := sqrt _).
    replace (op3_b tv te tn tev ten tnv tnve * d + op3_a tv te tn tev ten tnv tnve * d + op3_c tv te tn tev ten tnv tnve * d)
      with (3 * tnve * d) by (rewrite <- Esum; ring).
    field. lra. }
  assert (Hge : tnve <= op3_raw tv te tn tev ten tnv tnve vref d d d dzxi dzyi dxyi (d + d + d)).
  { rewrite Eraw.
    pose proof (sqrt_pos (op3_t2 vref (d + d + d) - op3_t3 tv te tn tev ten tnv tnve dzxi dzyi dxyi)) as P.
    assert (0 <= sqrt (op3_t2 vref (d + d + d) - op3_t3 tv te tn tev ten tnv tnve dzxi dzyi dxyi) / (d + d + d))
      by (apply Rmult_le_pos; [exact P | left; apply Rinv_0_lt_compat; lra]).
    lra. }
  repeat split; try assumption.
  unfold op3. cbv zeta. rewrite (proj2 (Rltb_false _ _) Hge). reflexivity.
Qed.

(* tie: when the 1D/2D candidates exceed the three face neighbours and t2 >= t3, sweep uses the 3D operator *)
Theorem sweep_uses_op3 tt ttsgn slow dz dx dy dz2i dx2i dy2i dzxi dzyi dxyi dsum
        i j k sgnvz sgnvx sgnvy sgntz sgntx sgnty nz nx ny grad :
  let tv := nb_v tt i j k sgntz in let te := nb_e tt i j k sgntx in let tn := nb_n tt i j k sgnty in
  let tev := nb_ev tt i j k sgntz sgntx in let ten := nb_en tt i j k sgntx sgnty in
  let tnv := nb_nv tt i j k sgntz sgnty in let tnve := nb_nve tt i j k sgntz sgntx sgnty in
  let vref := cell_s slow i j k sgnvz sgnvx sgnvy in
  let t1 := t1d tt slow dz dx dy i j k sgnvz sgnvx sgnvy sgntz sgntx sgnty nz nx ny in
  let t2 := sweep_t2d tt slow dz dx dy dz2i dx2i dy2i i j k sgnvz sgnvx sgnvy sgntz sgntx sgnty nz nx ny in
  pymax3 tv te tn < pymin2 t1 t2 ->
  op3_t3 tv te tn tev ten tnv tnve dzxi dzyi dxyi <= op3_t2 vref dsum ->
  fst (sweep tt ttsgn slow (dz, dx, dy, dz2i, dx2i, dy2i, dzxi, dzyi, dxyi, dsum)
             i j k sgnvz sgnvx sgnvy sgntz sgntx sgnty nz nx ny grad)
  = set tt [i; j; k] (pymin4 (get 0 tt [i; j; k]) t1 t2
                             (op3 tv te tn tev ten tnv tnve vref dz2i dx2i dy2i dzxi dzyi dxyi dsum)).
Proof.
  intros tv te tn tev ten tnv tnve vref t1 t2 H1 H2. rewrite sweep_tt_eq. unfold sweep_t3d. cbv zeta.
  fold tv te tn tev ten tnv tnve vref t1 t2.
  rewrite (proj2 (Rltb_true _ _) H1), (proj2 (Rleb_true _ _) H2). reflexivity.
Qed.

(* the generated 3D sweep computes the exact plane-wave value with its 3D operator *)
Theorem sweep_op3_plane_wave tt ttsgn slow dz dx dy i j k sgnvz sgnvx sgnvy sgntz sgntx sgnty nz nx ny grad
        (T0 : R) s a b c :
  let t1 := t1d tt slow dz dx dy i j k sgnvz sgnvx sgnvy sgntz sgntx sgnty nz nx ny in
  let t2 := sweep_t2d tt slow dz dx dy (1 / dz / dz) (1 / dx / dx) (1 / dy / dy) i j k sgnvz sgnvx sgnvy sgntz sgntx sgnty nz nx ny in
  0 < dz -> 0 < dx -> 0 < dy -> 0 <= s -> 0 <= a -> 0 <= b -> 0 <= c -> a * a + b * b + c * c = 1 ->
  nb_nve tt i j k sgntz sgntx sgnty = T0 ->
  nb_ev tt i j k sgntz sgntx = T0 + s * c * dy -> nb_en tt i j k sgntx sgnty = T0 + s * a * dz ->
  nb_nv tt i j k sgntz sgnty = T0 + s * b * dx ->
  nb_v tt i j k sgntz = T0 + s * (b * dx + c * dy) -> nb_e tt i j k sgntx = T0 + s * (a * dz + c * dy) ->
  nb_n tt i j k sgnty = T0 + s * (a * dz + b * dx) ->
  cell_s slow i j k sgnvz sgnvx sgnvy = s ->
  pymax3 (T0 + s * (b * dx + c * dy)) (T0 + s * (a * dz + c * dy)) (T0 + s * (a * dz + b * dx)) < pymin2 t1 t2 ->
  fst (sweep tt ttsgn slow (dargs_of dz dx dy) i j k sgnvz sgnvx sgnvy sgntz sgntx sgnty nz nx ny grad)
  = set tt [i; j; k] (pymin4 (get 0 tt [i; j; k]) t1 t2 (T0 + s * (a * dz + b * dx + c * dy))).
Proof.
  intros t1 t2 Hdz Hdx Hdy Hs Ha Hb Hc Hn E0 Eev Een Env Ev Ee En Es Hmax. unfold dargs_of.
  rewrite sweep_uses_op3; fold t1 t2; rewrite ?E0, ?Eev, ?Een, ?Env, ?Ev, ?Ee, ?En, ?Es.
  - rewrite op3_exact_on_plane_wave by assumption. reflexivity.
  - exact Hmax.
  - apply op3_admissible_plane_wave; assumption.
Qed.

Example op3_exact_ex :   (* direction (2/3, 1/3, 2/3), slowness 3, unit cube *)
  op3 (0 + 3 * (1/3 * 1 + 2/3 * 1)) (0 + 3 * (2/3 * 1 + 2/3 * 1)) (0 + 3 * (2/3 * 1 + 1/3 * 1))
      (0 + 3 * (2/3) * 1) (0 + 3 * (2/3) * 1) (0 + 3 * (1/3) * 1) 0 3
      (1 / 1 / 1) (1 / 1 / 1) (1 / 1 / 1) (1 / 1 / 1 * (1 / 1 / 1)) (1 / 1 / 1 * (1 / 1 / 1)) (1 / 1 / 1 * (1 / 1 / 1))
      (1 / 1 / 1 + 1 / 1 / 1 + 1 / 1 / 1)
  = 0 + 3 * (2/3 * 1 + 1/3 * 1 + 2/3 * 1).
Proof. apply op3_exact_on_plane_wave; lra. Qed.
Example t2d_zx_plane_wave_ex :
  t2d_zx (0 + 2 * (4/5) * 1) (0 + 2 * (3/5) * 1) 0 2 1 1 (1 / 1 / 1) (1 / 1 / 1) = 0 + 2 * (3/5 * 1 + 4/5 * 1).
Proof. apply t2d_zx_plane_wave; lra. Qed.

(* ---- satisfiability of the hypotheses of sweep_op3_plane_wave: a 2x2x2 grid, one cell of slowness 3, unit spacing,
        direction (2/3, 1/3, 2/3); node (1,1,1) holds Big ---- *)
Lemma pymin2_gt x p q : x < p -> x < q -> x < pymin2 p q.
Proof. intros. unfold pymin2. destruct (nltb q p); assumption. Qed.
Lemma pymin3_gt x p q r : x < p -> x < q -> x < r -> x < pymin3 p q r.
Proof. intros. unfold pymin3. repeat apply pymin2_gt; assumption. Qed.
Lemma pymax3_lt x p q r : p < x -> q < x -> r < x -> pymax3 p q r < x.
Proof. intros. unfold pymax3, pymax2. repeat destruct (nltb _ _); assumption. Qed.
Lemma pymin2_same (p : R) : pymin2 p p = p.
Proof. unfold pymin2. destruct (nltb p p); reflexivity. Qed.
Lemma sqrt_gt (x y : R) : 0 <= x -> x * x < y -> x < sqrt y.
Proof. intros Hx H. rewrite <- (sqrt_square x Hx). apply sqrt_lt_1_alt. nra. Qed.

Definition ex_tt : arr R := mkarr [2%Z; 2%Z; 2%Z] [0; 2; 1; 3; 2; 4; 3; 100000].
Definition ex_slow : arr R := mkarr [1%Z; 1%Z; 1%Z] [3].
Definition ex_sgn : arr Z := full [2%Z; 2%Z; 2%Z; 3%Z] 0%Z.

Example sweep_op3_plane_wave_ex :
  fst (sweep ex_tt ex_sgn ex_slow (dargs_of 1 1 1) 1 1 1 1 1 1 1 1 1 2 2 2 false)
  = set ex_tt [1%Z; 1%Z; 1%Z]
      (pymin4 100000 (t1d ex_tt ex_slow 1 1 1 1 1 1 1 1 1 1 1 1 2 2 2)
              (sweep_t2d ex_tt ex_slow 1 1 1 (1 / 1 / 1) (1 / 1 / 1) (1 / 1 / 1) 1 1 1 1 1 1 1 1 1 2 2 2)
              (0 + 3 * (2/3 * 1 + 1/3 * 1 + 2/3 * 1))).
Proof.
  apply (sweep_op3_plane_wave ex_tt ex_sgn ex_slow 1 1 1 1 1 1 1 1 1 1 1 1 2 2 2 false 0 3 (2/3) (1/3) (2/3));
    try lra; try reflexivity.
  - change (2 = 0 + 3 * (2 / 3) * 1). lra.
  - change (2 = 0 + 3 * (2 / 3) * 1). lra.
  - change (1 = 0 + 3 * (1 / 3) * 1). lra.
  - change (3 = 0 + 3 * (1 / 3 * 1 + 2 / 3 * 1)). lra.
  - change (4 = 0 + 3 * (2 / 3 * 1 + 2 / 3 * 1)). lra.
  - change (3 = 0 + 3 * (2 / 3 * 1 + 1 / 3 * 1)). lra.
  - assert (P4 : pymin4 3 3 3 3 = 3) by (unfold pymin4, pymin3; rewrite !pymin2_same; reflexivity).
    assert (Ez : edge_s_z ex_slow 1 1 1 1 2 2 = 3) by exact P4.
    assert (Ex : edge_s_x ex_slow 1 1 1 1 2 2 = 3) by exact P4.
    assert (Ey : edge_s_y ex_slow 1 1 1 1 2 2 = 3) by exact P4.
    assert (Fzx : face_s_zx ex_slow 1 1 1 1 1 2 = 3) by exact (pymin2_same 3).
    assert (Fzy : face_s_zy ex_slow 1 1 1 1 1 2 = 3) by exact (pymin2_same 3).
    assert (Fxy : face_s_xy ex_slow 1 1 1 1 1 2 = 3) by exact (pymin2_same 3).
    assert (Ev : nb_v ex_tt 1 1 1 1 = 3) by reflexivity.
    assert (Ee : nb_e ex_tt 1 1 1 1 = 4) by reflexivity.
    assert (En : nb_n ex_tt 1 1 1 1 = 3) by reflexivity.
    assert (Eev : nb_ev ex_tt 1 1 1 1 1 = 2) by reflexivity.
    assert (Een : nb_en ex_tt 1 1 1 1 1 = 2) by reflexivity.
    assert (Env : nb_nv ex_tt 1 1 1 1 1 = 1) by reflexivity.
    unfold t1d, sweep_t2d. cbv zeta. rewrite Ez, Ex, Ey, Fzx, Fzy, Fxy, Ev, Ee, En, Eev, Een, Env.
    apply pymax3_lt; (apply pymin2_gt; [apply pymin3_gt | apply pymin3_gt]); try lra.
    all: unfold t2d_zx, t2d_zy, t2d_xy;
         repeat (rewrite (proj2 (Rltb_true _ _)) by lra); cbn [andb];
         unfold OperatorsR.four_point, op2; cbv zeta;
         match goal with |- ?x < (?p + sqrt ?r) / ?q =>
           assert (Hq : 8 < sqrt r) by (apply sqrt_gt; lra);
           set (sr := sqrt r) in *; clearbody sr; replace q with 2 by lra; lra end.
Qed.

(* ------------------------------------------------------------------------------------------ *)
Print Assumptions t_ana_exact.
Print Assumptions t_anad_exact.
Print Assumptions t_ana_scale_slowness.
Print Assumptions t_ana_scale_length.
Print Assumptions t_anad_scale_slowness.
Print Assumptions t_anad_scale_length.
Print Assumptions t_ana_swap_zx.
Print Assumptions t_ana_swap_zy.
Print Assumptions t_ana_swap_xy.
Print Assumptions sweep_tt_eq.
Print Assumptions t2d_zx_plane_wave.
Print Assumptions t2d_zy_plane_wave.
Print Assumptions t2d_xy_plane_wave.
Print Assumptions op3_exact_on_plane_wave.
Print Assumptions op3_guard_noop_cubic.
Print Assumptions sweep_uses_op3.
Print Assumptions sweep_op3_plane_wave.
