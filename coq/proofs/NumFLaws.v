(* Order laws of IEEE binary64 primitive floats (instance NumF of class Num), valid for ALL floats:
   NaN, both infinities and both zeros included.

   Method.  A Z-valued rank  frank : float -> Z  is defined on the (sign, mantissa, exponent) view
   Prim2SF x : every finite binary64 is an integer multiple of 2^-1074, so
       frank x = (-1)^s * m * 2^(e + 1074)        (exact, an integer since e >= -1074)
       frank (+-0) = 0,  frank NaN = 0,  frank (-inf) = - 2^2100,  frank (+inf) = 2^2100.
   The three characterisations
       ltb a b = true <-> a, b not NaN /\ frank a <  frank b
       leb a b = true <-> a, b not NaN /\ frank a <= frank b
       eqb a b = true <-> a, b not NaN /\ frank a =  frank b
   are proved through Flocq (Prim2B, Bltb_correct ... on finite operands, case analysis otherwise),
   and every law below is then linear integer arithmetic. *)
From Coq Require Import ZArith Reals Lia Lra Wellfounded PrimFloat FloatOps FloatAxioms SpecFloat.
From Flocq Require Import Core.Zaux Core.Raux Core.Defs Core.Float_prop IEEE754.BinarySingleNaN.
From Flocq Require IEEE754.PrimFloat.
From FT.lib Require Import Num.

Module FP := Flocq.IEEE754.PrimFloat.

Local Open Scope Z_scope.

(* ------------------------------------------------------------------------------------------ *)
(* The rank                                                                                    *)
(* ------------------------------------------------------------------------------------------ *)

Definition frank_inf : Z := 2 ^ 2100.

Definition frankSF (x : spec_float) : Z :=
  match x with
  | S754_zero _ => 0
  | S754_nan => 0
  | S754_infinity s => if s then - frank_inf else frank_inf
  | S754_finite s m e => cond_Zopp s (Zpos m) * 2 ^ (e + 1074)
  end.

Definition frank (x : PrimFloat.float) : Z := frankSF (Prim2SF x).

Notation B64 := (binary_float prec emax).

Definition frankB (x : B64) : Z := frankSF (B2SF x).

Lemma frank_inf_eq : frank_inf = 2 ^ 2100.
Proof. reflexivity. Qed.

Lemma frank_inf_big : 2 ^ 2098 < frank_inf.
Proof. rewrite frank_inf_eq. apply Z.pow_lt_mono_r; lia. Qed.

Lemma pow2098_pos : 0 < 2 ^ 2098.
Proof. apply Z.pow_pos_nonneg; lia. Qed.

Global Opaque frank_inf.

Lemma IZR_pow2 : forall k, 0 <= k -> IZR (2 ^ k) = bpow radix2 k.
Proof. intros k Hk. exact (IZR_Zpower radix2 k Hk). Qed.

(* exponent and size of a valid finite binary64 *)
Lemma bounded_facts : forall m e, SpecFloat.bounded prec emax m e = true ->
  -1074 <= e /\ Zpos m * 2 ^ (e + 1074) < 2 ^ 2098.
Proof.
  intros m e Hb.
  assert (He : -1074 <= e).
  { destruct (andb_prop _ _ Hb) as [H1 _].
    apply Zeq_bool_eq in H1.
    unfold SpecFloat.fexp, SpecFloat.emin, prec, emax in H1. lia. }
  split; [exact He|].
  apply lt_IZR.
  rewrite mult_IZR, !IZR_pow2 by lia.
  pose proof (bounded_lt_emax prec emax m e Hb) as Hlt.
  unfold F2R in Hlt; simpl Fnum in Hlt; simpl Fexp in Hlt.
  replace 2098 with (emax + 1074) by reflexivity.
  rewrite !bpow_plus.
  pose proof (bpow_gt_0 radix2 1074) as Hp.
  rewrite <- Rmult_assoc.
  apply Rmult_lt_compat_r; assumption.
Qed.

Lemma frankB_finite_bound : forall x : B64, is_finite x = true ->
  - 2 ^ 2098 < frankB x < 2 ^ 2098.
Proof.
  pose proof pow2098_pos as Hp.
  intros [s|s| |s m e Hb] Hf; try discriminate Hf; unfold frankB; cbn [B2SF frankSF].
  - lia.
  - destruct (bounded_facts m e Hb) as [He Hm].
    assert (0 < Zpos m * 2 ^ (e + 1074)).
    { apply Z.mul_pos_pos; [lia|]. apply Z.pow_pos_nonneg; lia. }
    destruct s; unfold cond_Zopp.
    + rewrite Z.mul_opp_l. lia.
    + lia.
Qed.

(* the rank is the real value scaled by 2^1074 *)
Lemma frankB_B2R : forall x : B64, is_finite x = true ->
  IZR (frankB x) = (B2R x * bpow radix2 1074)%R.
Proof.
  intros [s|s| |s m e Hb] Hf; try discriminate Hf; unfold frankB; cbn [B2SF frankSF B2R].
  - lra.
  - destruct (bounded_facts m e Hb) as [He _].
    rewrite mult_IZR, IZR_pow2 by lia.
    unfold F2R; simpl Fnum; simpl Fexp.
    rewrite bpow_plus. ring.
Qed.

Lemma finite_not_nan : forall x : B64, is_finite x = true -> is_nan x = false.
Proof. intros [s|s| |s m e Hb] Hf; try discriminate Hf; reflexivity. Qed.

(* ------------------------------------------------------------------------------------------ *)
(* Comparisons on binary_float, finite operands                                                *)
(* ------------------------------------------------------------------------------------------ *)

Lemma Bltb_fin : forall x y : B64, is_finite x = true -> is_finite y = true ->
  (Bltb x y = true <-> frankB x < frankB y).
Proof.
  intros x y Fx Fy.
  rewrite (Bltb_correct prec emax x y Fx Fy).
  pose proof (frankB_B2R x Fx) as Hx. pose proof (frankB_B2R y Fy) as Hy.
  pose proof (bpow_gt_0 radix2 1074) as Hp.
  case Rlt_bool_spec; intro Hr; split; intro Hz; try reflexivity; try discriminate Hz.
  - apply lt_IZR. rewrite Hx, Hy. apply Rmult_lt_compat_r; assumption.
  - exfalso. apply IZR_lt in Hz. rewrite Hx, Hy in Hz.
    apply Rmult_lt_reg_r in Hz; [lra|assumption].
Qed.

Lemma Bleb_fin : forall x y : B64, is_finite x = true -> is_finite y = true ->
  (Bleb x y = true <-> frankB x <= frankB y).
Proof.
  intros x y Fx Fy.
  rewrite (Bleb_correct prec emax x y Fx Fy).
  pose proof (frankB_B2R x Fx) as Hx. pose proof (frankB_B2R y Fy) as Hy.
  pose proof (bpow_gt_0 radix2 1074) as Hp.
  case Rle_bool_spec; intro Hr; split; intro Hz; try reflexivity; try discriminate Hz.
  - apply le_IZR. rewrite Hx, Hy. apply Rmult_le_compat_r; [lra|assumption].
  - exfalso. apply IZR_le in Hz. rewrite Hx, Hy in Hz.
    apply Rmult_le_reg_r in Hz; [lra|assumption].
Qed.

Lemma Beqb_fin : forall x y : B64, is_finite x = true -> is_finite y = true ->
  (Beqb x y = true <-> frankB x = frankB y).
Proof.
  intros x y Fx Fy.
  rewrite (Beqb_correct prec emax x y Fx Fy).
  pose proof (frankB_B2R x Fx) as Hx. pose proof (frankB_B2R y Fy) as Hy.
  pose proof (bpow_gt_0 radix2 1074) as Hp.
  case Req_bool_spec; intro Hr; split; intro Hz; try reflexivity; try discriminate Hz.
  - apply eq_IZR. rewrite Hx, Hy, Hr. reflexivity.
  - exfalso. apply Hr. apply (f_equal IZR) in Hz. rewrite Hx, Hy in Hz.
    apply Rmult_eq_reg_r in Hz; [assumption|lra].
Qed.

(* ------------------------------------------------------------------------------------------ *)
(* Comparisons on binary_float, all operands                                                   *)
(* ------------------------------------------------------------------------------------------ *)

Ltac cmp_cases x y :=
  destruct x as [sx|sx| |sx mx ex Hx]; destruct y as [sy|sy| |sy my ey Hy];
  try (pose proof (frankB_finite_bound (B754_finite sx mx ex Hx) eq_refl) as Hbx;
       unfold frankB in Hbx; cbn [B2SF frankSF] in Hbx);
  try (pose proof (frankB_finite_bound (B754_finite sy my ey Hy) eq_refl) as Hby;
       unfold frankB in Hby; cbn [B2SF frankSF] in Hby);
  unfold Bltb, Bleb, Beqb, SFltb, SFleb, SFeqb, frankB;
  cbn [B2SF SFcompare frankSF is_nan];
  try (set (rx := (cond_Zopp sx (Zpos mx) * _)) in *; clearbody rx);
  try (set (ry := (cond_Zopp sy (Zpos my) * _)) in *; clearbody ry);
  pose proof frank_inf_big; pose proof pow2098_pos;
  try destruct sx; try destruct sy; cbv beta iota;
  try solve [ exfalso; discriminate ];
  (split;
   [ let Hc := fresh "Hc" in
     intro Hc; try discriminate Hc; (split; [reflexivity | split; [reflexivity | lia]])
   | let Ha := fresh "Ha" in let Hb := fresh "Hb" in let Hc := fresh "Hc" in
     intros (Ha & Hb & Hc); try discriminate Ha; try discriminate Hb; try reflexivity;
     exfalso; lia ]).

Lemma Bltb_iff : forall x y : B64,
  Bltb x y = true <-> is_nan x = false /\ is_nan y = false /\ frankB x < frankB y.
Proof.
  intros x y.
  destruct (is_finite x) eqn:Fx; destruct (is_finite y) eqn:Fy.
  - rewrite (Bltb_fin x y Fx Fy), (finite_not_nan x Fx), (finite_not_nan y Fy). tauto.
  - cmp_cases x y; discriminate.
  - cmp_cases x y; discriminate.
  - cmp_cases x y; discriminate.
Qed.

Lemma Bleb_iff : forall x y : B64,
  Bleb x y = true <-> is_nan x = false /\ is_nan y = false /\ frankB x <= frankB y.
Proof.
  intros x y.
  destruct (is_finite x) eqn:Fx; destruct (is_finite y) eqn:Fy.
  - rewrite (Bleb_fin x y Fx Fy), (finite_not_nan x Fx), (finite_not_nan y Fy). tauto.
  - cmp_cases x y; discriminate.
  - cmp_cases x y; discriminate.
  - cmp_cases x y; discriminate.
Qed.

Lemma Beqb_iff : forall x y : B64,
  Beqb x y = true <-> is_nan x = false /\ is_nan y = false /\ frankB x = frankB y.
Proof.
  intros x y.
  destruct (is_finite x) eqn:Fx; destruct (is_finite y) eqn:Fy.
  - rewrite (Beqb_fin x y Fx Fy), (finite_not_nan x Fx), (finite_not_nan y Fy). tauto.
  - cmp_cases x y; discriminate.
  - cmp_cases x y; discriminate.
  - cmp_cases x y; discriminate.
Qed.
