(* Order laws of IEEE binary64 primitive floats (instance NumF of class Num), valid for ALL floats:
   NaN, both infinities and both zeros included.

   Method.  A Z-valued rank  frank : float -> Z  is defined on the (sign, mantissa, exponent) view
   Prim2SF x : every finite binary64 is an integer multiple of 2^-1074, so
       frank x = (-1)^s * m * 2^(e + 1074)        (exact, an integer since e >= -1074)
       frank (+-0) = 0,  frank NaN = 0,  frank (-inf) = - 2^2100,  frank (+inf) = 2^2100.
   The three characterisations
       ltb a b = true <-> a, b not NaN /\ frank a <  frank b
       leb a b = true <-> a, b not NaN /\ frank a <= frank b
       eqb a b = true <-> a, b not NaN /\ frank a =  frank b
   are proved through Flocq (Prim2B, Bltb_correct ... on finite operands, case analysis otherwise),
   and every law below is then linear integer arithmetic. *)
From Coq Require Import ZArith Reals Lia Lra Wellfounded PrimFloat FloatOps FloatAxioms SpecFloat.
From Flocq Require Import Core.Zaux Core.Raux Core.Defs Core.Float_prop IEEE754.BinarySingleNaN.
From Flocq Require IEEE754.PrimFloat.
From FT.lib Require Import Num.

Module FP := Flocq.IEEE754.PrimFloat.

Local Open Scope Z_scope.

(* ------------------------------------------------------------------------------------------ *)
(* The rank                                                                                    *)
(* ------------------------------------------------------------------------------------------ *)

Definition frank_inf : Z := 2 ^ 2100.

Definition frankSF (x : spec_float) : Z :=
  match x with
  | S754_zero _ => 0
  | S754_nan => 0
  | S754_infinity s => if s then - frank_inf else frank_inf
  | S754_finite s m e => cond_Zopp s (Zpos m) * 2 ^ (e + 1074)
  end.

Definition frank (x : PrimFloat.float) : Z := frankSF (Prim2SF x).

Notation B64 := (binary_float prec emax).

Definition frankB (x : B64) : Z := frankSF (B2SF x).

Lemma frank_inf_eq : frank_inf = 2 ^ 2100.
Proof. reflexivity. Qed.

(* strict bound on the rank of finite floats (kept opaque so that lia never expands it) *)
Definition frank_fin : Z := 2 ^ 2098.

Lemma frank_fin_eq : frank_fin = 2 ^ 2098.
Proof. reflexivity. Qed.

Lemma frank_inf_big : frank_fin < frank_inf.
Proof. rewrite frank_inf_eq, frank_fin_eq. apply Z.pow_lt_mono_r; lia. Qed.

Lemma pow2098_pos : 0 < frank_fin.
Proof. rewrite frank_fin_eq. apply Z.pow_pos_nonneg; lia. Qed.

Global Opaque frank_inf frank_fin.

Lemma IZR_pow2 : forall k, 0 <= k -> IZR (2 ^ k) = bpow radix2 k.
Proof. intros k Hk. exact (IZR_Zpower radix2 k Hk). Qed.

(* exponent and size of a valid finite binary64 *)
Lemma bounded_facts : forall m e, SpecFloat.bounded prec emax m e = true ->
  -1074 <= e /\ Zpos m * 2 ^ (e + 1074) < 2 ^ 2098.
Proof.
  intros m e Hb.
  assert (He : -1074 <= e).
  { destruct (andb_prop _ _ Hb) as [H1 _].
    apply Zeq_bool_eq in H1.
    unfold SpecFloat.fexp, SpecFloat.emin, prec, emax in H1. lia. }
  split; [exact He|].
  apply lt_IZR.
  rewrite mult_IZR, !IZR_pow2 by lia.
  pose proof (bounded_lt_emax prec emax m e Hb) as Hlt.
  unfold F2R in Hlt; simpl Fnum in Hlt; simpl Fexp in Hlt.
  replace 2098 with (emax + 1074) by reflexivity.
  rewrite !bpow_plus.
  pose proof (bpow_gt_0 radix2 1074) as Hp.
  rewrite <- Rmult_assoc.
  apply Rmult_lt_compat_r; assumption.
Qed.

Lemma frankB_finite_bound : forall x : B64, is_finite x = true ->
  - frank_fin < frankB x < frank_fin.
Proof.
  pose proof pow2098_pos as Hp.
  intros [s|s| |s m e Hb] Hf; try discriminate Hf; unfold frankB; cbn [B2SF frankSF].
  - lia.
  - destruct (bounded_facts m e Hb) as [He Hm]. rewrite <- frank_fin_eq in Hm.
    assert (0 < Zpos m * 2 ^ (e + 1074)).
    { apply Z.mul_pos_pos; [lia|]. apply Z.pow_pos_nonneg; lia. }
    destruct s; unfold cond_Zopp.
    + rewrite Z.mul_opp_l. lia.
    + lia.
Qed.

(* the rank is the real value scaled by 2^1074 *)
Lemma frankB_B2R : forall x : B64, is_finite x = true ->
  IZR (frankB x) = (B2R x * bpow radix2 1074)%R.
Proof.
  intros [s|s| |s m e Hb] Hf; try discriminate Hf; unfold frankB; cbn [B2SF frankSF B2R].
  - lra.
  - destruct (bounded_facts m e Hb) as [He _].
    rewrite mult_IZR, IZR_pow2 by lia.
    unfold F2R; simpl Fnum; simpl Fexp.
    rewrite bpow_plus. ring.
Qed.

Lemma finite_not_nan : forall x : B64, is_finite x = true -> is_nan x = false.
Proof. intros [s|s| |s m e Hb] Hf; try discriminate Hf; reflexivity. Qed.

(* ------------------------------------------------------------------------------------------ *)
(* Comparisons on binary_float, finite operands                                                *)
(* ------------------------------------------------------------------------------------------ *)

Lemma Bltb_fin : forall x y : B64, is_finite x = true -> is_finite y = true ->
  (Bltb x y = true <-> frankB x < frankB y).
Proof.
  intros x y Fx Fy.
  rewrite (Bltb_correct prec emax x y Fx Fy).
  pose proof (frankB_B2R x Fx) as Hx. pose proof (frankB_B2R y Fy) as Hy.
  pose proof (bpow_gt_0 radix2 1074) as Hp.
  case Rlt_bool_spec; intro Hr; split; intro Hz; try reflexivity; try discriminate Hz.
  - apply lt_IZR. rewrite Hx, Hy. apply Rmult_lt_compat_r; assumption.
  - exfalso. apply IZR_lt in Hz. rewrite Hx, Hy in Hz.
    apply Rmult_lt_reg_r in Hz; [lra|assumption].
Qed.

Lemma Bleb_fin : forall x y : B64, is_finite x = true -> is_finite y = true ->
  (Bleb x y = true <-> frankB x <= frankB y).
Proof.
  intros x y Fx Fy.
  rewrite (Bleb_correct prec emax x y Fx Fy).
  pose proof (frankB_B2R x Fx) as Hx. pose proof (frankB_B2R y Fy) as Hy.
  pose proof (bpow_gt_0 radix2 1074) as Hp.
  case Rle_bool_spec; intro Hr; split; intro Hz; try reflexivity; try discriminate Hz.
  - apply le_IZR. rewrite Hx, Hy. apply Rmult_le_compat_r; [lra|assumption].
  - exfalso. apply IZR_le in Hz. rewrite Hx, Hy in Hz.
    apply Rmult_le_reg_r in Hz; [lra|assumption].
Qed.

Lemma Beqb_fin : forall x y : B64, is_finite x = true -> is_finite y = true ->
  (Beqb x y = true <-> frankB x = frankB y).
Proof.
  intros x y Fx Fy.
  rewrite (Beqb_correct prec emax x y Fx Fy).
  pose proof (frankB_B2R x Fx) as Hx. pose proof (frankB_B2R y Fy) as Hy.
  pose proof (bpow_gt_0 radix2 1074) as Hp.
  case Req_bool_spec; intro Hr; split; intro Hz; try reflexivity; try discriminate Hz.
  - apply eq_IZR. rewrite Hx, Hy, Hr. reflexivity.
  - exfalso. apply Hr. apply (f_equal IZR) in Hz. rewrite Hx, Hy in Hz.
    apply Rmult_eq_reg_r in Hz; [assumption|lra].
Qed.

(* ------------------------------------------------------------------------------------------ *)
(* Comparisons on binary_float, all operands                                                   *)
(* ------------------------------------------------------------------------------------------ *)

Ltac cmp_cases x y Fx Fy :=
  destruct x as [sx|sx| |sx mx ex Hx]; destruct y as [sy|sy| |sy my ey Hy];
  try discriminate Fx; try discriminate Fy; clear Fx Fy;
  try (pose proof (frankB_finite_bound (B754_finite sx mx ex Hx) eq_refl) as Hbx;
       unfold frankB in Hbx; cbn [B2SF frankSF] in Hbx);
  try (pose proof (frankB_finite_bound (B754_finite sy my ey Hy) eq_refl) as Hby;
       unfold frankB in Hby; cbn [B2SF frankSF] in Hby);
  unfold Bltb, Bleb, Beqb, SFltb, SFleb, SFeqb, frankB;
  cbn [B2SF SFcompare frankSF is_nan];
  try (set (rx := (cond_Zopp sx (Zpos mx) * _)) in *; clearbody rx);
  try (set (ry := (cond_Zopp sy (Zpos my) * _)) in *; clearbody ry);
  pose proof frank_inf_big; pose proof pow2098_pos;
  try destruct sx; try destruct sy; cbv beta iota;
  (split;
   [ let Hc := fresh "Hc" in
     intro Hc; try discriminate Hc; (split; [reflexivity | split; [reflexivity | lia]])
   | let Ha := fresh "Ha" in let Hb := fresh "Hb" in let Hc := fresh "Hc" in
     intros (Ha & Hb & Hc); try discriminate Ha; try discriminate Hb; try reflexivity;
     exfalso; lia ]).

Lemma Bltb_iff : forall x y : B64,
  Bltb x y = true <-> is_nan x = false /\ is_nan y = false /\ frankB x < frankB y.
Proof.
  intros x y.
  destruct (is_finite x) eqn:Fx; destruct (is_finite y) eqn:Fy.
  - rewrite (Bltb_fin x y Fx Fy), (finite_not_nan x Fx), (finite_not_nan y Fy). tauto.
  - cmp_cases x y Fx Fy.
  - cmp_cases x y Fx Fy.
  - cmp_cases x y Fx Fy.
Qed.

Lemma Bleb_iff : forall x y : B64,
  Bleb x y = true <-> is_nan x = false /\ is_nan y = false /\ frankB x <= frankB y.
Proof.
  intros x y.
  destruct (is_finite x) eqn:Fx; destruct (is_finite y) eqn:Fy.
  - rewrite (Bleb_fin x y Fx Fy), (finite_not_nan x Fx), (finite_not_nan y Fy). tauto.
  - cmp_cases x y Fx Fy.
  - cmp_cases x y Fx Fy.
  - cmp_cases x y Fx Fy.
Qed.

Lemma Beqb_iff : forall x y : B64,
  Beqb x y = true <-> is_nan x = false /\ is_nan y = false /\ frankB x = frankB y.
Proof.
  intros x y.
  destruct (is_finite x) eqn:Fx; destruct (is_finite y) eqn:Fy.
  - rewrite (Beqb_fin x y Fx Fy), (finite_not_nan x Fx), (finite_not_nan y Fy). tauto.
  - cmp_cases x y Fx Fy.
  - cmp_cases x y Fx Fy.
  - cmp_cases x y Fx Fy.
Qed.

(* ------------------------------------------------------------------------------------------ *)
(* Primitive floats                                                                            *)
(* ------------------------------------------------------------------------------------------ *)

Lemma frank_Prim2B : forall x : PrimFloat.float, frank x = frankB (FP.Prim2B x).
Proof. intros x. unfold frank, frankB. rewrite FP.B2SF_Prim2B. reflexivity. Qed.

Theorem ltb_iff : forall a b : PrimFloat.float,
  PrimFloat.ltb a b = true <->
  PrimFloat.is_nan a = false /\ PrimFloat.is_nan b = false /\ frank a < frank b.
Proof.
  intros a b. rewrite FP.ltb_equiv, !FP.is_nan_equiv, !frank_Prim2B. apply Bltb_iff.
Qed.

Theorem leb_iff : forall a b : PrimFloat.float,
  PrimFloat.leb a b = true <->
  PrimFloat.is_nan a = false /\ PrimFloat.is_nan b = false /\ frank a <= frank b.
Proof.
  intros a b. rewrite FP.leb_equiv, !FP.is_nan_equiv, !frank_Prim2B. apply Bleb_iff.
Qed.

Theorem eqb_iff : forall a b : PrimFloat.float,
  PrimFloat.eqb a b = true <->
  PrimFloat.is_nan a = false /\ PrimFloat.is_nan b = false /\ frank a = frank b.
Proof.
  intros a b. rewrite FP.eqb_equiv, !FP.is_nan_equiv, !frank_Prim2B. apply Beqb_iff.
Qed.

Lemma not_true_false : forall b : bool, (b = true -> False) -> b = false.
Proof. intros [|] H; [exfalso; apply H|]; reflexivity. Qed.

(* ---- item 2 : NaN is unordered and unequal ---- *)

Lemma ltb_nan_l : forall a x, PrimFloat.is_nan a = true -> PrimFloat.ltb a x = false.
Proof. intros a x Ha. apply not_true_false. intros H. apply ltb_iff in H. destruct H as (H & _). congruence. Qed.

Lemma ltb_nan_r : forall a x, PrimFloat.is_nan a = true -> PrimFloat.ltb x a = false.
Proof. intros a x Ha. apply not_true_false. intros H. apply ltb_iff in H. destruct H as (_ & H & _). congruence. Qed.

Lemma leb_nan_l : forall a x, PrimFloat.is_nan a = true -> PrimFloat.leb a x = false.
Proof. intros a x Ha. apply not_true_false. intros H. apply leb_iff in H. destruct H as (H & _). congruence. Qed.

Lemma leb_nan_r : forall a x, PrimFloat.is_nan a = true -> PrimFloat.leb x a = false.
Proof. intros a x Ha. apply not_true_false. intros H. apply leb_iff in H. destruct H as (_ & H & _). congruence. Qed.

Lemma eqb_nan_l : forall a x, PrimFloat.is_nan a = true -> PrimFloat.eqb a x = false.
Proof. intros a x Ha. apply not_true_false. intros H. apply eqb_iff in H. destruct H as (H & _). congruence. Qed.

Lemma eqb_nan_r : forall a x, PrimFloat.is_nan a = true -> PrimFloat.eqb x a = false.
Proof. intros a x Ha. apply not_true_false. intros H. apply eqb_iff in H. destruct H as (_ & H & _). congruence. Qed.

(* ---- item 1 : strict order laws, all floats ---- *)

Lemma ltb_irrefl : forall a, PrimFloat.ltb a a = false.
Proof. intros a. apply not_true_false. intros H. apply ltb_iff in H. lia. Qed.

Lemma ltb_trans : forall a b c,
  PrimFloat.ltb a b = true -> PrimFloat.ltb b c = true -> PrimFloat.ltb a c = true.
Proof.
  intros a b c H1 H2. apply ltb_iff in H1. apply ltb_iff in H2. apply ltb_iff.
  destruct H1 as (Ha & Hb & H1). destruct H2 as (_ & Hc & H2).
  split; [exact Ha|]. split; [exact Hc|]. lia.
Qed.

#[global] Instance NumLawsF : NumLaws PrimFloat.float.
Proof. split; simpl; [exact ltb_irrefl | exact ltb_trans]. Qed.

(* ---- items 3, 4 ---- *)

Lemma ltb_leb_false : forall a b, PrimFloat.ltb a b = true -> PrimFloat.leb b a = false.
Proof.
  intros a b H. apply not_true_false. intros H'. apply ltb_iff in H. apply leb_iff in H'. lia.
Qed.

Lemma leb_total_nonan : forall a b,
  PrimFloat.is_nan a = false -> PrimFloat.is_nan b = false ->
  PrimFloat.leb a b = true \/ PrimFloat.ltb b a = true.
Proof.
  intros a b Ha Hb. destruct (Z_le_gt_dec (frank a) (frank b)) as [H|H].
  - left. apply leb_iff. auto.
  - right. apply ltb_iff. split; [exact Hb|]. split; [exact Ha|]. lia.
Qed.

Lemma ltb_asym : forall a b, PrimFloat.ltb a b = true -> PrimFloat.ltb b a = false.
Proof.
  intros a b H. apply not_true_false. intros H'. apply ltb_iff in H. apply ltb_iff in H'. lia.
Qed.

(* further consequences, used by clients *)
Lemma ltb_leb : forall a b, PrimFloat.ltb a b = true -> PrimFloat.leb a b = true.
Proof. intros a b H. apply ltb_iff in H. apply leb_iff. intuition lia. Qed.

Lemma leb_ltb_false : forall a b, PrimFloat.leb a b = true -> PrimFloat.ltb b a = false.
Proof.
  intros a b H. apply not_true_false. intros H'. apply leb_iff in H. apply ltb_iff in H'. lia.
Qed.

Lemma ltb_total_nonan : forall a b,
  PrimFloat.is_nan a = false -> PrimFloat.is_nan b = false ->
  PrimFloat.ltb a b = true \/ PrimFloat.eqb a b = true \/ PrimFloat.ltb b a = true.
Proof.
  intros a b Ha Hb. destruct (Z.lt_trichotomy (frank a) (frank b)) as [H|[H|H]].
  - left. apply ltb_iff. auto.
  - right; left. apply eqb_iff. auto.
  - right; right. apply ltb_iff. auto.
Qed.

(* ---- item 5 : the rank ---- *)

Lemma frank_lt : forall a b, PrimFloat.ltb a b = true -> frank a < frank b.
Proof. intros a b H. apply ltb_iff in H. lia. Qed.

Lemma frank_le : forall a b, PrimFloat.leb a b = true -> frank a <= frank b.
Proof. intros a b H. apply leb_iff in H. lia. Qed.

Lemma frank_bounded : forall a, - 2 ^ 2100 <= frank a <= 2 ^ 2100.
Proof.
  intros a. rewrite frank_Prim2B, <- frank_inf_eq.
  pose proof frank_inf_big as Hbig. pose proof pow2098_pos as Hpos.
  destruct (is_finite (FP.Prim2B a)) eqn:Fa.
  - pose proof (frankB_finite_bound _ Fa). lia.
  - destruct (FP.Prim2B a) as [s|s| |s m e Hb]; try discriminate Fa;
      unfold frankB; cbn [B2SF frankSF]; [destruct s|]; lia.
Qed.

(* no infinite strictly decreasing / increasing chain of floats *)
Theorem ltb_wf : well_founded (fun a b : PrimFloat.float => PrimFloat.ltb a b = true).
Proof.
  apply (wf_incl _ _ (fun a b => - 2 ^ 2100 <= frank a < frank b)).
  - intros a b H. split; [apply frank_bounded | apply frank_lt; exact H].
  - apply (wf_inverse_image _ _ (fun x y => - 2 ^ 2100 <= x < y) frank).
    apply Z.lt_wf.
Qed.

Theorem gtb_wf : well_founded (fun a b : PrimFloat.float => PrimFloat.ltb b a = true).
Proof.
  apply (wf_incl _ _ (fun a b => - 2 ^ 2100 <= - frank a < - frank b)).
  - intros a b H. pose proof (frank_bounded a). apply frank_lt in H. lia.
  - apply (wf_inverse_image _ _ (fun x y => - 2 ^ 2100 <= x < y) (fun a => - frank a)).
    apply Z.lt_wf.
Qed.

(* sanity: the rank is computable *)
Goal frank 1%float = 2 ^ 1074 /\ frank (-0)%float = 0 /\ frank neg_infinity = - 2 ^ 2100
     /\ frank 0x1p-1074%float = 1.
Proof. repeat split; vm_compute; reflexivity. Qed.

Print Assumptions NumLawsF.
Print Assumptions frank_lt.
