(* C01 / C05 for the 2D source-line initialisation `fteik2d_p2` (block `if iflag == 2:` of _fteik/_fteik2d.py).
   Built on the decomposition of proofs/InitSym.v (init_corners, east/west/down/up_phase, blk_x, blk_z). *)
From Coq Require Import ZArith List Bool Lia Reals Lra Psatz.
From FT.lib Require Import Num Arr ArrLemmas.
From FT.gen Require Import Common Fteik2d.
From FT.proofs Require Import SafetyTools OperatorsR InitSym.
Import ListNotations.
Open Scope Z_scope.
Open Scope bool_scope.

Ltac numR' := cbn [nadd nsub nmul ndiv nsqrt nabs nneg nltb nleb neqb nofZ nofQ NumR].

(* integer order facts as real order facts *)
Ltac z2r :=
  repeat match goal with
  | H : (_ <= _ < _)%Z |- _ => destruct H
  | H : (_ <= _ <= _)%Z |- _ => destruct H
  | H : (_ < _ <= _)%Z |- _ => destruct H
  | H : (_ < _ < _)%Z |- _ => destruct H
  end;
  repeat match goal with
  | H : (?a <= ?b)%Z |- _ =>
      lazymatch goal with _ : (IZR a <= IZR b)%R |- _ => fail | _ => pose proof (IZR_le a b H) end
  | H : (?a < ?b)%Z |- _ =>
      lazymatch goal with _ : (IZR a < IZR b)%R |- _ => fail | _ => pose proof (IZR_lt a b H) end
  end;
  rewrite ?plus_IZR, ?minus_IZR in *.
Ltac rabs :=
  repeat match goal with
  | |- context [Rabs ?x] => first [rewrite (Rabs_pos_eq x) by lra | rewrite (Rabs_left1 x) by lra]
  end.

(* ========================================================================================== *)
(* A. real-number facts: the analytic time along a grid line                                    *)
(* ========================================================================================== *)
Section RealFacts.
Open Scope R_scope.
Implicit Types (dz dx zsa xsa v : R) (i j : Z).

Lemma t_ana_nonneg i j dz dx zsa xsa v : 0 <= v -> 0 <= t_ana i j dz dx zsa xsa v.
Proof. intros Hv. rewrite t_ana_exact. apply Rmult_le_pos; [exact Hv | apply sqrt_pos]. Qed.

Lemma sq_le_abs (a b : R) : Rabs a <= Rabs b -> a ^ 2 <= b ^ 2.
Proof. intros H. apply Rsqr_le_abs_1 in H. unfold Rsqr in H. lra. Qed.

(* the Euclidean distance grows along a line when the coordinate along the line moves away from the source *)
Lemma t_ana_mono_x i j j' dz dx zsa xsa v :
  0 <= v -> Rabs (IZR j - xsa) <= Rabs (IZR j' - xsa) ->
  t_ana i j dz dx zsa xsa v <= t_ana i j' dz dx zsa xsa v.
Proof.
  intros Hv H. rewrite !t_ana_exact. apply Rmult_le_compat_l; [exact Hv|]. apply sqrt_le_1_alt.
  apply sq_le_abs in H. pose proof (pow2_ge_0 dx). nra.
Qed.
Lemma t_ana_mono_z i i' j dz dx zsa xsa v :
  0 <= v -> Rabs (IZR i - zsa) <= Rabs (IZR i' - zsa) ->
  t_ana i j dz dx zsa xsa v <= t_ana i' j dz dx zsa xsa v.
Proof. intros Hv H. rewrite (t_ana_swap i), (t_ana_swap i'). apply t_ana_mono_x; assumption. Qed.

(* ... and is at least the distance along the line *)
Lemma t_ana_ge_x i j dz dx zsa xsa v :
  0 <= v -> 0 <= dx -> v * Rabs (IZR j - xsa) * dx <= t_ana i j dz dx zsa xsa v.
Proof.
  intros Hv Hdx. rewrite t_ana_exact, Rmult_assoc. apply Rmult_le_compat_l; [exact Hv|].
  set (a := IZR j - xsa). pose proof (Rabs_pos a) as Ha.
  rewrite <- (sqrt_square (Rabs a * dx)) by (apply Rmult_le_pos; assumption).
  apply sqrt_le_1_alt.
  replace (Rabs a * dx * (Rabs a * dx)) with (dx ^ 2 * Rabs a ^ 2) by ring. rewrite pow2_abs.
  pose proof (pow2_ge_0 (dz * (IZR i - zsa))). nra.
Qed.
Lemma t_ana_ge_z i j dz dx zsa xsa v :
  0 <= v -> 0 <= dz -> v * Rabs (IZR i - zsa) * dz <= t_ana i j dz dx zsa xsa v.
Proof. intros Hv Hdz. rewrite (t_ana_swap i). apply t_ana_ge_x; assumption. Qed.

(* the spherical operator without perturbation returns the analytic time when the stencil looks away from the
   source; any fall-back value t1, any (non-negative) inverse spacings *)
Lemma delta_homog (t1 : R) i j dz dx dzi dxi dz2i dx2i zsa xsa v sgz sgx :
  0 <= dz -> 0 <= dx -> 0 <= dzi -> 0 <= dxi ->
  0 <= IZR sgz * (IZR i - zsa) -> 0 <= IZR sgx * (IZR j - xsa) ->
  delta t1 0 0 0 (fst (fst (t_anad i j dz dx zsa xsa v))) (snd (fst (t_anad i j dz dx zsa xsa v)))
        (snd (t_anad i j dz dx zsa xsa v)) dzi dxi dz2i dx2i v v sgz sgx
  = t_ana i j dz dx zsa xsa v.
Proof.
  intros Hdz Hdx Hdzi Hdxi Hz Hx. rewrite t_anad_exact. cbn [fst snd].
  set (t := t_ana i j dz dx zsa xsa v).
  apply delta_spherical_exact.
  destruct (Rlt_dec 0 t) as [P|N]; [|lra].
  assert (Hv : 0 <= v ^ 2) by apply pow2_ge_0.
  assert (Hit : 0 <= / t) by (left; apply Rinv_0_lt_compat; exact P).
  assert (G : forall q1 q2 q3 q4 q5 : R, 0 <= q1 -> 0 <= q2 -> 0 <= q3 -> 0 <= q4 -> 0 <= q5 -> 0 <= q1 * q2 * q3 * q4 * q5)
    by (intros; repeat apply Rmult_le_pos; assumption).
  set (v2 := v ^ 2) in *. set (pz := IZR sgz * (IZR i - zsa)) in *. set (px := IZR sgx * (IZR j - xsa)) in *.
  apply Rplus_le_le_0_compat.
  - replace (IZR sgx * (v2 * (IZR j - xsa) * dx / t) * dxi) with (v2 * px * dx * / t * dxi)
      by (unfold px, Rdiv; ring).
    apply G; assumption.
  - replace (IZR sgz * (v2 * (IZR i - zsa) * dz / t) * dzi) with (v2 * pz * dz * / t * dzi)
      by (unfold pz, Rdiv; ring).
    apply G; assumption.
Qed.

Lemma inv_spacing_nonneg (w h : R) : 0 < w -> 0 < h -> 0 <= 1 / (w * h).
Proof. intros Hw Hh. unfold Rdiv. rewrite Rmult_1_l. left. apply Rinv_0_lt_compat. nra. Qed.
Lemma Rltb_Big_Big : Rltb (@Big R NumR) Big = false.
Proof. apply Rltb_false. lra. Qed.
End RealFacts.

(* ========================================================================================== *)
(* B. homogeneous medium: one block, one loop body                                              *)
(* ========================================================================================== *)
Section Homog.
Variables (nz nx : Z) (dz dx vzero zsa xsa : R) (zsi xsi : Z).
Hypothesis Hdz : (0 < dz)%R.
Hypothesis Hdx : (0 < dx)%R.
Hypothesis Hv : (0 <= vzero)%R.
Hypothesis Hzsi : 0 <= zsi < nz - 1.
Hypothesis Hxsi : 0 <= xsi < nx - 1.
Hypothesis Hzsa : (IZR zsi <= zsa <= IZR zsi + 1)%R.
Hypothesis Hxsa : (IZR xsi <= xsa <= IZR xsi + 1)%R.
Notation ta i j := (t_ana i j dz dx zsa xsa vzero).

(* the signs the loops record: -1 on the source's own line index and below, +1 above *)
Definition sgn_of (s k : Z) : Z := if k <=? s then -1 else 1.

(* ---------- one block ---------- *)
Lemma blk_x_eq grad (dxi dx2i : R) row (dzw : R) sgz sgx jp j td tt (sg : arr Z) :
  (0 <= dxi)%R ->
  (0 <= IZR sgz * (IZR row - zsa))%R -> (0 <= IZR sgx * (IZR j - xsa))%R ->
  (Rabs (IZR jp - xsa) <= Rabs (IZR j - xsa))%R ->
  get 0%R td [j] = (vzero * Rabs (IZR j - xsa) * dx)%R ->
  (get 0%R tt [row; jp] = ta row jp \/ get 0%R tt [row; jp] = Big) ->
  blk_x dx dz grad vzero xsa zsa dxi dx2i row dzw sgz sgx jp j vzero 0%R 0%R td tt sg =
  let c := Rltb 0 dzw && Rltb (get 0%R tt [row; jp]) Big in
  (if c then set tt [row; j] (ta row j) else tt,
   if c then (if grad then set (set sg [row; j; 0] sgz) [row; j; 1] sgx else sg) else sg).
Proof.
  intros Hdxi Hsz Hsx Hmono Htd Hval. unfold blk_x. cbv zeta. unfold ngtb, ngeb.
  change (@nofZ R NumR 0) with 0%R. numR'.
  destruct (Rltb 0 dzw) eqn:E1; cbn [andb]; [|reflexivity].
  destruct (Rltb (get 0%R tt [row; jp]) Big) eqn:E2; [|reflexivity].
  destruct Hval as [G|G]; [|rewrite G, Rltb_Big_Big in E2; discriminate E2].
  rewrite G. replace (ta row jp - ta row jp)%R with 0%R by ring.
  apply Rltb_true in E1.
  rewrite delta_homog; try lra; [|apply inv_spacing_nonneg; assumption].
  rewrite Htd.
  rewrite (proj2 (Rleb_true (ta row jp) (ta row j))) by (apply t_ana_mono_x; assumption).
  rewrite (proj2 (Rleb_true (vzero * Rabs (IZR j - xsa) * dx) (ta row j))) by (apply t_ana_ge_x; lra).
  cbn [andb fst snd]. reflexivity.
Qed.

Lemma blk_z_eq grad (dzi dz2i : R) col (dxw : R) sgz sgx ip i td tt (sg : arr Z) :
  (0 <= dzi)%R ->
  (0 <= IZR sgz * (IZR i - zsa))%R -> (0 <= IZR sgx * (IZR col - xsa))%R ->
  (Rabs (IZR ip - zsa) <= Rabs (IZR i - zsa))%R ->
  get 0%R td [i] = (vzero * Rabs (IZR i - zsa) * dz)%R ->
  (get 0%R tt [ip; col] = ta ip col \/ get 0%R tt [ip; col] = Big) ->
  blk_z dx dz grad vzero xsa zsa dzi dz2i col dxw sgz sgx ip i vzero 0%R 0%R td tt sg =
  let c := Rltb 0 dxw && Rltb (get 0%R tt [ip; col]) Big in
  (if c then set tt [i; col] (ta i col) else tt,
   if c then (if grad then set (set sg [i; col; 0] sgz) [i; col; 1] sgx else sg) else sg).
Proof.
  intros Hdzi Hsz Hsx Hmono Htd Hval. unfold blk_z. cbv zeta. unfold ngtb, ngeb.
  change (@nofZ R NumR 0) with 0%R. numR'.
  destruct (Rltb 0 dxw) eqn:E1; cbn [andb]; [|reflexivity].
  destruct (Rltb (get 0%R tt [ip; col]) Big) eqn:E2; [|reflexivity].
  destruct Hval as [G|G]; [|rewrite G, Rltb_Big_Big in E2; discriminate E2].
  rewrite G. replace (ta ip col - ta ip col)%R with 0%R by ring.
  apply Rltb_true in E1.
  rewrite delta_homog; try lra; [|apply inv_spacing_nonneg; assumption].
  rewrite Htd.
  rewrite (proj2 (Rleb_true (ta ip col) (ta i col))) by (apply t_ana_mono_z; assumption).
  rewrite (proj2 (Rleb_true (vzero * Rabs (IZR i - zsa) * dz) (ta i col))) by (apply t_ana_ge_z; lra).
  cbn [andb fst snd]. reflexivity.
Qed.

(* ---------- description of a state of the time grid and of the sign array ---------- *)
Definition Corner (i j : Z) : Prop := zsi <= i <= zsi + 1 /\ xsi <= j <= xsi + 1.

(* `P` is the set of nodes that hold the analytic time; all the others still hold `Big`.  Sign array (when
   `grad`): the nodes of `P` outside the source cell carry the signs of the loop that wrote them. *)
Definition Desc (grad : bool) (P : Z -> Z -> Prop) (tt : arr R) (sg : arr Z) : Prop :=
  wf tt /\ shape tt = [nz; nx] /\
  (forall i j, 0 <= i < nz -> 0 <= j < nx -> P i j \/ ~ P i j) /\
  (forall i j, 0 <= i < nz -> 0 <= j < nx ->
     (P i j -> get 0%R tt [i; j] = ta i j) /\ (~ P i j -> get 0%R tt [i; j] = Big)) /\
  (grad = true -> wf sg /\ shape sg = [nz; nx; 2] /\
     forall i j, 0 <= i < nz -> 0 <= j < nx -> P i j -> ~ Corner i j ->
       get 0 sg [i; j; 0] = sgn_of zsi i /\ get 0 sg [i; j; 1] = sgn_of xsi j).

Lemma Desc_ext grad P Q tt sg :
  Desc grad P tt sg -> (forall i j, 0 <= i < nz -> 0 <= j < nx -> (P i j <-> Q i j)) -> Desc grad Q tt sg.
Proof.
  intros (W & S & Dec & Hget & Hsg) E.
  split; [exact W|]. split; [exact S|]. split; [|split].
  - intros i j Hi Hj. destruct (Dec i j Hi Hj); [left|right]; rewrite <- (E i j Hi Hj); assumption.
  - intros i j Hi Hj. destruct (Hget i j Hi Hj) as [G1 G2]. rewrite <- (E i j Hi Hj). split; assumption.
  - intros Hg. destruct (Hsg Hg) as (Ws & Ss & Hs). split; [exact Ws|]. split; [exact Ss|].
    intros i j Hi Hj HQ. apply Hs; auto. apply (E i j Hi Hj), HQ.
Qed.

Lemma Desc_val grad P tt sg i j :
  Desc grad P tt sg -> 0 <= i < nz -> 0 <= j < nx -> get 0%R tt [i; j] = ta i j \/ get 0%R tt [i; j] = Big.
Proof.
  intros (_ & _ & Dec & Hget & _) Hi Hj. destruct (Hget i j Hi Hj) as [G1 G2].
  destruct (Dec i j Hi Hj); [left|right]; auto.
Qed.

(* the condition of a block in terms of the description *)
Lemma Desc_cond grad P tt sg i j (d : R) :
  Desc grad P tt sg -> 0 <= i < nz -> 0 <= j < nx ->
  (Rltb 0 d && Rltb (get 0%R tt [i; j]) Big = true <-> (0 < d)%R /\ P i j /\ (ta i j < Big)%R).
Proof.
  intros (_ & _ & Dec & Hget & _) Hi Hj. destruct (Hget i j Hi Hj) as [G1 G2].
  rewrite andb_true_iff, !Rltb_true. destruct (Dec i j Hi Hj) as [Y|N].
  - rewrite (G1 Y). tauto.
  - rewrite (G2 N). split; [intros [_ C]; lra | tauto].
Qed.

Lemma idx2_neq (i j a b : Z) : [i; j] <> [a; b] -> ~ (a = i /\ b = j).
Proof. intros N [-> ->]. apply N. reflexivity. Qed.

(* the effect of one block on the description *)
Lemma Desc_update grad P tt sg i j (c : bool) (Q : Prop) sgz sgx :
  Desc grad P tt sg -> 0 <= i < nz -> 0 <= j < nx -> (c = true <-> Q) ->
  sgz = sgn_of zsi i -> sgx = sgn_of xsi j ->
  Desc grad (fun a b => P a b \/ (a = i /\ b = j /\ Q))
    (if c then set tt [i; j] (ta i j) else tt)
    (if c then (if grad then set (set sg [i; j; 0] sgz) [i; j; 1] sgx else sg) else sg).
Proof.
  intros D Hi Hj HcQ -> ->. destruct c.
  - assert (HQ : Q) by (apply HcQ; reflexivity). destruct D as (W & S & Dec & Hget & Hsg).
    assert (I0 : inb tt [i; j] = true) by (eapply inb2_true; eauto).
    split; [apply wf_set, W|]. split; [exact S|]. split; [|split].
    + intros a b Ha Hb. destruct (Dec a b Ha Hb) as [Y|N]; [left; left; exact Y|].
      destruct (Z.eq_dec a i) as [->|Na]; [destruct (Z.eq_dec b j) as [->|Nb]|].
      * left. right. auto.
      * right. intros [Y|(_ & E & _)]; [exact (N Y) | exact (Nb E)].
      * right. intros [Y|(E & _)]; [exact (N Y) | exact (Na E)].
    + intros a b Ha Hb. destruct (list_eq_dec_Z [i; j] [a; b]) as [E|N].
      * injection E as <- <-. rewrite get_set_same by assumption. split; [reflexivity|].
        intros Hn. exfalso. apply Hn. right. auto.
      * rewrite get_set_other; [| exact I0 | eapply inb2_true; eauto | exact N].
        destruct (Hget a b Ha Hb) as [G1 G2]. apply idx2_neq in N. split.
        -- intros [Y|(Ea & Eb & _)]; [exact (G1 Y) | exfalso; apply N; auto].
        -- intros Hn. apply G2. intros Y. apply Hn. left. exact Y.
    + intros Hg. destruct (Hsg Hg) as (Ws & Ss & Hs). rewrite Hg.
      assert (J0 : inb sg [i; j; 0] = true) by (eapply inb3_true; eauto; lia).
      assert (J1 : inb sg [i; j; 1] = true) by (eapply inb3_true; eauto; lia).
      split; [apply wf_set, wf_set, Ws|]. split; [exact Ss|].
      intros a b Ha Hb HP Hnc.
      destruct (list_eq_dec_Z [i; j] [a; b]) as [E|N].
      * injection E as <- <-. split.
        -- rewrite get_set_other; [| rewrite inb_set; exact J1 | rewrite inb_set; exact J0 | intros E; discriminate E].
           apply get_set_same; assumption.
        -- apply get_set_same; [apply wf_set, Ws | rewrite inb_set; exact J1].
      * assert (K0 : inb sg [a; b; 0] = true) by (eapply inb3_true; eauto; lia).
        assert (K1 : inb sg [a; b; 1] = true) by (eapply inb3_true; eauto; lia).
        assert (HPab : P a b).
        { destruct HP as [Y|(Ea & Eb & _)]; [exact Y|]. exfalso. apply N. subst. reflexivity. }
        assert (M : forall k k', [i; j; k] <> [a; b; k']).
        { intros k k' E. apply N. injection E as -> -> _. reflexivity. }
        rewrite !get_set_other; rewrite ?inb_set; auto.
  - assert (HQ : ~ Q) by (intros q; apply HcQ in q; discriminate q).
    apply (Desc_ext grad P); [exact D|]. intros a b _ _. tauto.
Qed.

(* ---------- the sets written by the four loops ---------- *)
Variables (dzu dzd dxw dxe : R) (slow : arr R).
Hypothesis Hdzu : dzu = (zsa - IZR zsi)%R.
Hypothesis Hdzd : dzd = (IZR zsi + 1 - zsa)%R.
Hypothesis Hdxw : dxw = (xsa - IZR xsi)%R.
Hypothesis Hdxe : dxe = (IZR xsi + 1 - xsa)%R.
Hypothesis Hslow : forall i j, 0 <= i < nz - 1 -> 0 <= j < nx - 1 -> get 0%R slow [i; j] = vzero.

(* lines on which the x-loops (resp. z-loops) work: the far line of the source cell only if the source is not on
   the near one *)
Definition RowOK (i : Z) : Prop := (i = zsi + 1 /\ (0 < dzd)%R) \/ (i = zsi /\ (0 < dzu)%R).
Definition ColOK (j : Z) : Prop := (j = xsi + 1 /\ (0 < dxe)%R) \/ (j = xsi /\ (0 < dxw)%R).
Definition EastSet (i j : Z) : Prop := RowOK i /\ xsi + 2 <= j /\ (ta i (j - 1) < Big)%R.
Definition WestSet (i j : Z) : Prop := RowOK i /\ j <= xsi - 1 /\ (ta i (j + 1) < Big)%R.
Definition DownSet (i j : Z) : Prop := ColOK j /\ zsi + 2 <= i /\ (ta (i - 1) j < Big)%R.
Definition UpSet (i j : Z) : Prop := ColOK j /\ i <= zsi - 1 /\ (ta (i + 1) j < Big)%R.

(* ---------- east ---------- *)
Definition InvE grad M (P0 : Z -> Z -> Prop) (k : Z) (st : arr R * arr R * arr Z) : Prop :=
  wf (fst (fst st)) /\ shape (fst (fst st)) = [M] /\
  get 0%R (fst (fst st)) [k - 1] = (vzero * (IZR (k - 1) - xsa) * dx)%R /\
  Desc grad (fun a b => P0 a b \/ (EastSet a b /\ b < k)) (snd (fst st)) (snd st).

Lemma east_step grad M (P0 : Z -> Z -> Prop) k st :
  nx <= M -> xsi + 2 <= k < nx -> P0 (zsi + 1) (xsi + 1) -> P0 zsi (xsi + 1) ->
  InvE grad M P0 k st ->
  InvE grad M P0 (k + 1) (east_body dx dz grad slow vzero xsa zsa zsi dzu dzd (1 / dx)%R (1 / dx / dx)%R k st).
Proof.
  intros HM Hk A1 A2. destruct st as [[td tt] sg]. unfold InvE. cbn [fst snd]. intros (W & S & Htd & D).
  cbv beta zeta delta [east_body]. cbn [fst snd].
  change (@nofZ R NumR 0) with 0%R.
  rewrite (Hslow zsi (k - 1)) by lia.
  set (v := nadd (get 0%R td [k - 1]) (nmul dx vzero)).
  rewrite (get1_set_same td M k v W S ltac:(lia)).
  rewrite (get1_set_other td M k (k - 1) v S ltac:(lia) ltac:(lia) ltac:(lia)).
  assert (Kx : (IZR xsi + 2 <= IZR k)%R) by (z2r; lra).
  assert (Ev : v = (vzero * Rabs (IZR k - xsa) * dx)%R).
  { unfold v. numR'. rewrite Htd, minus_IZR. rabs. ring. }
  assert (T1 : nsub v (nmul (nmul vzero (nabs (nsub (nofZ k) xsa))) dx) = 0%R) by (rewrite Ev; numR'; ring).
  assert (T2 : nsub (get 0%R td [k - 1]) (nmul (nmul vzero (nabs (nsub (nsub (nofZ k) xsa) (nofZ 1)))) dx) = 0%R).
  { rewrite Htd, minus_IZR. numR'. rabs. ring. }
  rewrite T1, T2.
  set (tdn := set td [k] v).
  assert (Htdn : get 0%R tdn [k] = (vzero * Rabs (IZR k - xsa) * dx)%R).
  { unfold tdn. rewrite (get1_set_same td M k v W S ltac:(lia)). exact Ev. }
  assert (Hdxi : (0 <= 1 / dx)%R) by (unfold Rdiv; rewrite Rmult_1_l; left; apply Rinv_0_lt_compat; exact Hdx).
  assert (Hmono : (Rabs (IZR (k - 1) - xsa) <= Rabs (IZR k - xsa))%R) by (rewrite minus_IZR; rabs; lra).
  assert (Hsx : (0 <= IZR 1 * (IZR k - xsa))%R) by lra.
  (* first block: line zsi + 1 *)
  rewrite (blk_x_eq grad (1 / dx)%R (1 / dx / dx)%R (zsi + 1) dzd 1 1 (k - 1) k tdn tt sg Hdxi
             ltac:(rewrite plus_IZR; lra) Hsx Hmono Htdn (Desc_val _ _ _ _ _ _ D ltac:(lia) ltac:(lia))).
  cbv zeta. cbn [fst snd].
  pose proof (Desc_update grad _ tt sg (zsi + 1) k _ _ 1 1 D ltac:(lia) ltac:(lia)
                (Desc_cond grad _ tt sg (zsi + 1) (k - 1) dzd D ltac:(lia) ltac:(lia))
                ltac:(unfold sgn_of; destruct (Z.leb_spec (zsi + 1) zsi); lia)
                ltac:(unfold sgn_of; destruct (Z.leb_spec k xsi); lia)) as D1.
  match type of D1 with Desc _ _ ?t1 ?s1 => set (tt1 := t1) in *; set (sg1 := s1) in * end.
  (* second block: line zsi *)
  rewrite (blk_x_eq grad (1 / dx)%R (1 / dx / dx)%R zsi dzu (-1) 1 (k - 1) k tdn tt1 sg1 Hdxi
             ltac:(lra) Hsx Hmono Htdn (Desc_val _ _ _ _ _ _ D1 ltac:(lia) ltac:(lia))).
  cbv zeta. cbn [fst snd].
  pose proof (Desc_update grad _ tt1 sg1 zsi k _ _ (-1) 1 D1 ltac:(lia) ltac:(lia)
                (Desc_cond grad _ tt1 sg1 zsi (k - 1) dzu D1 ltac:(lia) ltac:(lia))
                ltac:(unfold sgn_of; destruct (Z.leb_spec zsi zsi); lia)
                ltac:(unfold sgn_of; destruct (Z.leb_spec k xsi); lia)) as D2.
  split; [apply wf_set, W|]. split; [exact S|]. split.
  - replace (k + 1 - 1) with k by lia. fold tdn. rewrite Htdn. rabs. reflexivity.
  - eapply Desc_ext; [exact D2|]. clear D D1 D2 tt1 sg1.
    intros a b Ha Hb. cbv beta.
    (* the analytic time one node closer to the source is smaller *)
    assert (Mo : forall r, (ta r (k - 1) < Big)%R -> xsi + 2 <= k - 1 -> (ta r (k - 1 - 1) < Big)%R).
    { intros r Hr Hq. eapply Rle_lt_trans; [|exact Hr]. apply t_ana_mono_x; [exact Hv|].
      assert (IZR xsi + 2 <= IZR (k - 1))%R by (apply IZR_le in Hq; rewrite plus_IZR in Hq; exact Hq).
      rewrite (minus_IZR (k - 1) 1). rabs. lra. }
    assert (Reach : forall r, P0 r (xsi + 1) -> RowOK r -> (ta r (k - 1) < Big)%R ->
                      P0 r (k - 1) \/ (EastSet r (k - 1) /\ k - 1 < k)).
    { intros r Hc Hr Ht. destruct (Z.eq_dec (k - 1) (xsi + 1)) as [E|N]; [left; rewrite E; exact Hc|].
      right. split; [|lia]. split; [exact Hr|]. split; [lia|]. apply Mo; [exact Ht | lia]. }
    unfold EastSet at 2. unfold RowOK at 2. split.
    + intros [[Y|(-> & -> & Q1 & _ & Q3)]|(-> & -> & Q1 & _ & Q3)].
      * destruct Y as [Y|[Y Y']]; [left; exact Y | right; split; [exact Y | lia]].
      * right. split; [|lia]. split; [left; auto|]. split; [lia | exact Q3].
      * right. split; [|lia]. split; [right; auto|]. split; [lia | exact Q3].
    + intros [Y|[(Hr & Hj & Ht) Hlt]]; [left; left; left; exact Y|].
      destruct (Z.eq_dec b k) as [->|Nb]; [|left; left; right; split; [split; auto | lia]].
      destruct Hr as [[-> Hd]|[-> Hd]].
      * left. right. repeat (split; auto). apply Reach; auto. left; auto.
      * right. repeat (split; auto). left. apply Reach; auto. right; auto.
Qed.
End Homog.
