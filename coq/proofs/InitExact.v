(* C01 / C05 for the 2D source-line initialisation `fteik2d_p2` (block `if iflag == 2:` of _fteik/_fteik2d.py).
   Built on the decomposition of proofs/InitSym.v (init_corners, east/west/down/up_phase, blk_x, blk_z). *)
From Coq Require Import ZArith List Bool Lia Reals Lra Psatz.
From FT.lib Require Import Num Arr ArrLemmas.
From FT.gen Require Import Common Fteik2d.
From FT.proofs Require Import SafetyTools OperatorsR InitSym.
Import ListNotations.
Open Scope Z_scope.
Open Scope bool_scope.

Ltac numR' := cbn [nadd nsub nmul ndiv nsqrt nabs nneg nltb nleb neqb nofZ nofQ NumR].

(* integer order facts as real order facts *)
Ltac z2r_le a b H :=
  lazymatch goal with _ : (IZR a <= IZR b)%R |- _ => fail | _ => pose proof (IZR_le a b H) end.
Ltac z2r_lt a b H :=
  lazymatch goal with _ : (IZR a < IZR b)%R |- _ => fail | _ => pose proof (IZR_lt a b H) end.
Ltac z2r :=
  repeat match goal with
  | H : (?a <= ?b)%Z |- _ => z2r_le a b H
  | H : (?a < ?b)%Z |- _ => z2r_lt a b H
  | H : (?a <= ?b)%Z /\ _ |- _ => z2r_le a b (proj1 H)
  | H : (?a < ?b)%Z /\ _ |- _ => z2r_lt a b (proj1 H)
  | H : _ /\ (?a <= ?b)%Z |- _ => z2r_le a b (proj2 H)
  | H : _ /\ (?a < ?b)%Z |- _ => z2r_lt a b (proj2 H)
  end;
  rewrite ?plus_IZR, ?minus_IZR in *.
Ltac rabs :=
  repeat match goal with
  | |- context [Rabs ?x] => first [rewrite (Rabs_pos_eq x) by lra | rewrite (Rabs_left1 x) by lra]
  end.

(* ========================================================================================== *)
(* A. real-number facts: the analytic time along a grid line                                    *)
(* ========================================================================================== *)
Section RealFacts.
Open Scope R_scope.
Implicit Types (dz dx zsa xsa v : R) (i j : Z).

Lemma t_ana_nonneg i j dz dx zsa xsa v : 0 <= v -> 0 <= t_ana i j dz dx zsa xsa v.
Proof. intros Hv. rewrite t_ana_exact. apply Rmult_le_pos; [exact Hv | apply sqrt_pos]. Qed.

Lemma sq_le_abs (a b : R) : Rabs a <= Rabs b -> a ^ 2 <= b ^ 2.
Proof. intros H. apply Rsqr_le_abs_1 in H. unfold Rsqr in H. lra. Qed.

(* the Euclidean distance grows along a line when the coordinate along the line moves away from the source *)
Lemma t_ana_mono_x i j j' dz dx zsa xsa v :
  0 <= v -> Rabs (IZR j - xsa) <= Rabs (IZR j' - xsa) ->
  t_ana i j dz dx zsa xsa v <= t_ana i j' dz dx zsa xsa v.
Proof.
  intros Hv H. rewrite !t_ana_exact. apply Rmult_le_compat_l; [exact Hv|]. apply sqrt_le_1_alt.
  apply sq_le_abs in H. pose proof (pow2_ge_0 dx). nra.
Qed.
Lemma t_ana_mono_z i i' j dz dx zsa xsa v :
  0 <= v -> Rabs (IZR i - zsa) <= Rabs (IZR i' - zsa) ->
  t_ana i j dz dx zsa xsa v <= t_ana i' j dz dx zsa xsa v.
Proof. intros Hv H. rewrite (t_ana_swap i), (t_ana_swap i'). apply t_ana_mono_x; assumption. Qed.

(* ... and is at least the distance along the line *)
Lemma t_ana_ge_x i j dz dx zsa xsa v :
  0 <= v -> 0 <= dx -> v * Rabs (IZR j - xsa) * dx <= t_ana i j dz dx zsa xsa v.
Proof.
  intros Hv Hdx. rewrite t_ana_exact, Rmult_assoc. apply Rmult_le_compat_l; [exact Hv|].
  set (a := IZR j - xsa). pose proof (Rabs_pos a) as Ha.
  rewrite <- (sqrt_square (Rabs a * dx)) by (apply Rmult_le_pos; assumption).
  apply sqrt_le_1_alt.
  replace (Rabs a * dx * (Rabs a * dx)) with (dx ^ 2 * Rabs a ^ 2) by ring. rewrite pow2_abs.
  pose proof (pow2_ge_0 (dz * (IZR i - zsa))). nra.
Qed.
Lemma t_ana_ge_z i j dz dx zsa xsa v :
  0 <= v -> 0 <= dz -> v * Rabs (IZR i - zsa) * dz <= t_ana i j dz dx zsa xsa v.
Proof. intros Hv Hdz. rewrite (t_ana_swap i). apply t_ana_ge_x; assumption. Qed.

(* the spherical operator without perturbation returns the analytic time when the stencil looks away from the
   source; any fall-back value t1, any (non-negative) inverse spacings *)
Lemma delta_homog (t1 : R) i j dz dx dzi dxi dz2i dx2i zsa xsa v sgz sgx :
  0 <= dz -> 0 <= dx -> 0 <= dzi -> 0 <= dxi ->
  0 <= IZR sgz * (IZR i - zsa) -> 0 <= IZR sgx * (IZR j - xsa) ->
  delta t1 0 0 0 (fst (fst (t_anad i j dz dx zsa xsa v))) (snd (fst (t_anad i j dz dx zsa xsa v)))
        (snd (t_anad i j dz dx zsa xsa v)) dzi dxi dz2i dx2i v v sgz sgx
  = t_ana i j dz dx zsa xsa v.
Proof.
  intros Hdz Hdx Hdzi Hdxi Hz Hx. rewrite t_anad_exact. cbn [fst snd].
  set (t := t_ana i j dz dx zsa xsa v).
  apply delta_spherical_exact.
  destruct (Rlt_dec 0 t) as [P|N]; [|lra].
  assert (Hv : 0 <= v ^ 2) by apply pow2_ge_0.
  assert (Hit : 0 <= / t) by (left; apply Rinv_0_lt_compat; exact P).
  assert (G : forall q1 q2 q3 q4 q5 : R, 0 <= q1 -> 0 <= q2 -> 0 <= q3 -> 0 <= q4 -> 0 <= q5 -> 0 <= q1 * q2 * q3 * q4 * q5)
    by (intros; repeat apply Rmult_le_pos; assumption).
  set (v2 := v ^ 2) in *. set (pz := IZR sgz * (IZR i - zsa)) in *. set (px := IZR sgx * (IZR j - xsa)) in *.
  apply Rplus_le_le_0_compat.
  - replace (IZR sgx * (v2 * (IZR j - xsa) * dx / t) * dxi) with (v2 * px * dx * / t * dxi)
      by (unfold px, Rdiv; ring).
    apply G; assumption.
  - replace (IZR sgz * (v2 * (IZR i - zsa) * dz / t) * dzi) with (v2 * pz * dz * / t * dzi)
      by (unfold pz, Rdiv; ring).
    apply G; assumption.
Qed.

Lemma inv_spacing_nonneg (w h : R) : 0 < w -> 0 < h -> 0 <= 1 / (w * h).
Proof. intros Hw Hh. unfold Rdiv. rewrite Rmult_1_l. left. apply Rinv_0_lt_compat. nra. Qed.
Lemma Rltb_Big_Big : Rltb (@Big R NumR) Big = false.
Proof. apply Rltb_false. lra. Qed.
End RealFacts.

(* ========================================================================================== *)
(* B. homogeneous medium: one block, one loop body                                              *)
(* ========================================================================================== *)
Section Homog.
Variables (nz nx : Z) (dz dx vzero zsa xsa : R) (zsi xsi : Z).
Hypothesis Hdz : (0 < dz)%R.
Hypothesis Hdx : (0 < dx)%R.
Hypothesis Hv : (0 <= vzero)%R.
Hypothesis Hzsi : 0 <= zsi < nz - 1.
Hypothesis Hxsi : 0 <= xsi < nx - 1.
Hypothesis Hzsa : (IZR zsi <= zsa <= IZR zsi + 1)%R.
Hypothesis Hxsa : (IZR xsi <= xsa <= IZR xsi + 1)%R.
Notation ta i j := (t_ana i j dz dx zsa xsa vzero).

(* the signs the loops record: -1 on the source's own line index and below, +1 above *)
Definition sgn_of (s k : Z) : Z := if k <=? s then -1 else 1.

(* ---------- one block ---------- *)
Lemma blk_x_eq grad (dxi dx2i : R) row (dzw : R) sgz sgx jp j td tt (sg : arr Z) :
  (0 <= dxi)%R ->
  (0 <= IZR sgz * (IZR row - zsa))%R -> (0 <= IZR sgx * (IZR j - xsa))%R ->
  (Rabs (IZR jp - xsa) <= Rabs (IZR j - xsa))%R ->
  get 0%R td [j] = (vzero * Rabs (IZR j - xsa) * dx)%R ->
  (get 0%R tt [row; jp] = ta row jp \/ get 0%R tt [row; jp] = Big) ->
  blk_x dx dz grad vzero xsa zsa dxi dx2i row dzw sgz sgx jp j vzero 0%R 0%R td tt sg =
  let c := Rltb 0 dzw && Rltb (get 0%R tt [row; jp]) Big in
  (if c then set tt [row; j] (ta row j) else tt,
   if c then (if grad then set (set sg [row; j; 0] sgz) [row; j; 1] sgx else sg) else sg).
Proof.
  intros Hdxi Hsz Hsx Hmono Htd Hval. unfold blk_x. cbv zeta. unfold ngtb, ngeb.
  change (@nofZ R NumR 0) with 0%R. numR'.
  destruct (Rltb 0 dzw) eqn:E1; cbn [andb]; [|reflexivity].
  destruct (Rltb (get 0%R tt [row; jp]) Big) eqn:E2; [|reflexivity].
  destruct Hval as [G|G]; [|rewrite G, Rltb_Big_Big in E2; discriminate E2].
  rewrite G. replace (ta row jp - ta row jp)%R with 0%R by ring.
  apply Rltb_true in E1.
  rewrite delta_homog; try lra; [|apply inv_spacing_nonneg; assumption].
  rewrite Htd.
  rewrite (proj2 (Rleb_true (ta row jp) (ta row j))) by (apply t_ana_mono_x; assumption).
  rewrite (proj2 (Rleb_true (vzero * Rabs (IZR j - xsa) * dx) (ta row j))) by (apply t_ana_ge_x; lra).
  cbn [andb fst snd]. reflexivity.
Qed.

Lemma blk_z_eq grad (dzi dz2i : R) col (dxw : R) sgz sgx ip i td tt (sg : arr Z) :
  (0 <= dzi)%R ->
  (0 <= IZR sgz * (IZR i - zsa))%R -> (0 <= IZR sgx * (IZR col - xsa))%R ->
  (Rabs (IZR ip - zsa) <= Rabs (IZR i - zsa))%R ->
  get 0%R td [i] = (vzero * Rabs (IZR i - zsa) * dz)%R ->
  (get 0%R tt [ip; col] = ta ip col \/ get 0%R tt [ip; col] = Big) ->
  blk_z dx dz grad vzero xsa zsa dzi dz2i col dxw sgz sgx ip i vzero 0%R 0%R td tt sg =
  let c := Rltb 0 dxw && Rltb (get 0%R tt [ip; col]) Big in
  (if c then set tt [i; col] (ta i col) else tt,
   if c then (if grad then set (set sg [i; col; 0] sgz) [i; col; 1] sgx else sg) else sg).
Proof.
  intros Hdzi Hsz Hsx Hmono Htd Hval. unfold blk_z. cbv zeta. unfold ngtb, ngeb.
  change (@nofZ R NumR 0) with 0%R. numR'.
  destruct (Rltb 0 dxw) eqn:E1; cbn [andb]; [|reflexivity].
  destruct (Rltb (get 0%R tt [ip; col]) Big) eqn:E2; [|reflexivity].
  destruct Hval as [G|G]; [|rewrite G, Rltb_Big_Big in E2; discriminate E2].
  rewrite G. replace (ta ip col - ta ip col)%R with 0%R by ring.
  apply Rltb_true in E1.
  rewrite delta_homog; try lra; [|apply inv_spacing_nonneg; assumption].
  rewrite Htd.
  rewrite (proj2 (Rleb_true (ta ip col) (ta i col))) by (apply t_ana_mono_z; assumption).
  rewrite (proj2 (Rleb_true (vzero * Rabs (IZR i - zsa) * dz) (ta i col))) by (apply t_ana_ge_z; lra).
  cbn [andb fst snd]. reflexivity.
Qed.

(* ---------- description of a state of the time grid and of the sign array ---------- *)
Definition Corner (i j : Z) : Prop := zsi <= i <= zsi + 1 /\ xsi <= j <= xsi + 1.

(* `P` is the set of nodes that hold the analytic time; all the others still hold `Big`.  Sign array (when
   `grad`): the nodes of `P` outside the source cell carry the signs of the loop that wrote them. *)
Definition Desc (trk grad : bool) (P : Z -> Z -> Prop) (tt : arr R) (sg : arr Z) : Prop :=
  wf tt /\ shape tt = [nz; nx] /\
  (forall i j, 0 <= i < nz -> 0 <= j < nx -> P i j \/ ~ P i j) /\
  (forall i j, 0 <= i < nz -> 0 <= j < nx ->
     (P i j -> get 0%R tt [i; j] = ta i j) /\ (~ P i j -> get 0%R tt [i; j] = Big)) /\
  (trk = true -> grad = true /\ wf sg /\ shape sg = [nz; nx; 2] /\
     forall i j, 0 <= i < nz -> 0 <= j < nx -> P i j -> ~ Corner i j ->
       get 0 sg [i; j; 0] = sgn_of zsi i /\ get 0 sg [i; j; 1] = sgn_of xsi j).

Lemma Desc_ext trk grad P Q tt sg :
  Desc trk grad P tt sg -> (forall i j, 0 <= i < nz -> 0 <= j < nx -> (P i j <-> Q i j)) -> Desc trk grad Q tt sg.
Proof.
  intros (W & S & Dec & Hget & Hsg) E.
  split; [exact W|]. split; [exact S|]. split; [|split].
  - intros i j Hi Hj. destruct (Dec i j Hi Hj); [left|right]; rewrite <- (E i j Hi Hj); assumption.
  - intros i j Hi Hj. destruct (Hget i j Hi Hj) as [G1 G2]. rewrite <- (E i j Hi Hj). split; assumption.
  - intros Hg. destruct (Hsg Hg) as (Eg & Ws & Ss & Hs). split; [exact Eg|]. split; [exact Ws|]. split; [exact Ss|].
    intros i j Hi Hj HQ. apply Hs; auto. apply (E i j Hi Hj), HQ.
Qed.

Lemma Desc_val trk grad P tt sg i j :
  Desc trk grad P tt sg -> 0 <= i < nz -> 0 <= j < nx -> get 0%R tt [i; j] = ta i j \/ get 0%R tt [i; j] = Big.
Proof.
  intros (_ & _ & Dec & Hget & _) Hi Hj. destruct (Hget i j Hi Hj) as [G1 G2].
  destruct (Dec i j Hi Hj); [left|right]; auto.
Qed.

(* the condition of a block in terms of the description *)
Lemma Desc_cond trk grad P tt sg i j (d : R) :
  Desc trk grad P tt sg -> 0 <= i < nz -> 0 <= j < nx ->
  (Rltb 0 d && Rltb (get 0%R tt [i; j]) Big = true <-> (0 < d)%R /\ P i j /\ (ta i j < Big)%R).
Proof.
  intros (_ & _ & Dec & Hget & _) Hi Hj. destruct (Hget i j Hi Hj) as [G1 G2].
  rewrite andb_true_iff, !Rltb_true. destruct (Dec i j Hi Hj) as [Y|N].
  - rewrite (G1 Y). tauto.
  - rewrite (G2 N). split; [intros [_ C]; lra | tauto].
Qed.

Lemma idx2_neq (i j a b : Z) : [i; j] <> [a; b] -> ~ (a = i /\ b = j).
Proof. intros N [-> ->]. apply N. reflexivity. Qed.

(* the effect of one block on the description *)
Lemma Desc_update trk grad P tt sg i j (c : bool) (Q : Prop) sgz sgx :
  Desc trk grad P tt sg -> 0 <= i < nz -> 0 <= j < nx -> (c = true <-> Q) ->
  sgz = sgn_of zsi i -> sgx = sgn_of xsi j ->
  Desc trk grad (fun a b => P a b \/ (a = i /\ b = j /\ Q))
    (if c then set tt [i; j] (ta i j) else tt)
    (if c then (if grad then set (set sg [i; j; 0] sgz) [i; j; 1] sgx else sg) else sg).
Proof.
  intros D Hi Hj HcQ -> ->. destruct c.
  - assert (HQ : Q) by (apply HcQ; reflexivity). destruct D as (W & S & Dec & Hget & Hsg).
    assert (I0 : inb tt [i; j] = true) by (eapply inb2_true; eauto).
    split; [apply wf_set, W|]. split; [exact S|]. split; [|split].
    + intros a b Ha Hb. destruct (Dec a b Ha Hb) as [Y|N]; [left; left; exact Y|].
      destruct (Z.eq_dec a i) as [->|Na]; [destruct (Z.eq_dec b j) as [->|Nb]|].
      * left. right. auto.
      * right. intros [Y|(_ & E & _)]; [exact (N Y) | exact (Nb E)].
      * right. intros [Y|(E & _)]; [exact (N Y) | exact (Na E)].
    + intros a b Ha Hb. destruct (list_eq_dec_Z [i; j] [a; b]) as [E|N].
      * injection E as <- <-. rewrite get_set_same by assumption. split; [reflexivity|].
        intros Hn. exfalso. apply Hn. right. auto.
      * rewrite get_set_other; [| exact I0 | eapply inb2_true; eauto | exact N].
        destruct (Hget a b Ha Hb) as [G1 G2]. apply idx2_neq in N. split.
        -- intros [Y|(Ea & Eb & _)]; [exact (G1 Y) | exfalso; apply N; auto].
        -- intros Hn. apply G2. intros Y. apply Hn. left. exact Y.
    + intros Hg. destruct (Hsg Hg) as (Eg & Ws & Ss & Hs). rewrite Eg. split; [reflexivity|].
      assert (J0 : inb sg [i; j; 0] = true) by (eapply inb3_true; eauto; lia).
      assert (J1 : inb sg [i; j; 1] = true) by (eapply inb3_true; eauto; lia).
      split; [apply wf_set, wf_set, Ws|]. split; [exact Ss|].
      intros a b Ha Hb HP Hnc.
      destruct (list_eq_dec_Z [i; j] [a; b]) as [E|N].
      * injection E as <- <-. split.
        -- rewrite get_set_other; [| rewrite inb_set; exact J1 | rewrite inb_set; exact J0 | intros E; discriminate E].
           apply get_set_same; assumption.
        -- apply get_set_same; [apply wf_set, Ws | rewrite inb_set; exact J1].
      * assert (K0 : inb sg [a; b; 0] = true) by (eapply inb3_true; eauto; lia).
        assert (K1 : inb sg [a; b; 1] = true) by (eapply inb3_true; eauto; lia).
        assert (HPab : P a b).
        { destruct HP as [Y|(Ea & Eb & _)]; [exact Y|]. exfalso. apply N. subst. reflexivity. }
        assert (M : forall k k', [i; j; k] <> [a; b; k']).
        { intros k k' E. apply N. injection E as -> -> _. reflexivity. }
        rewrite !get_set_other; rewrite ?inb_set; auto.
  - assert (HQ : ~ Q) by (intros q; apply HcQ in q; discriminate q).
    apply (Desc_ext trk grad P); [exact D|]. intros a b _ _. tauto.
Qed.

(* ---------- the sets written by the four loops ---------- *)
Variables (dzu dzd dxw dxe : R) (slow : arr R).
Hypothesis Hdzu : dzu = (zsa - IZR zsi)%R.
Hypothesis Hdzd : dzd = (IZR zsi + 1 - zsa)%R.
Hypothesis Hdxw : dxw = (xsa - IZR xsi)%R.
Hypothesis Hdxe : dxe = (IZR xsi + 1 - xsa)%R.
Hypothesis Hslow : forall i j, 0 <= i < nz - 1 -> 0 <= j < nx - 1 -> get 0%R slow [i; j] = vzero.

(* lines on which the x-loops (resp. z-loops) work: the far line of the source cell only if the source is not on
   the near one *)
Definition RowOK (i : Z) : Prop := (i = zsi + 1 /\ (0 < dzd)%R) \/ (i = zsi /\ (0 < dzu)%R).
Definition ColOK (j : Z) : Prop := (j = xsi + 1 /\ (0 < dxe)%R) \/ (j = xsi /\ (0 < dxw)%R).
Definition EastSet (i j : Z) : Prop := RowOK i /\ xsi + 2 <= j /\ (ta i (j - 1) < Big)%R.
Definition WestSet (i j : Z) : Prop := RowOK i /\ j <= xsi - 1 /\ (ta i (j + 1) < Big)%R.
Definition DownSet (i j : Z) : Prop := ColOK j /\ zsi + 2 <= i /\ (ta (i - 1) j < Big)%R.
Definition UpSet (i j : Z) : Prop := ColOK j /\ i <= zsi - 1 /\ (ta (i + 1) j < Big)%R.

(* ---------- east ---------- *)
Definition InvE trk grad M (P0 : Z -> Z -> Prop) (k : Z) (st : arr R * arr R * arr Z) : Prop :=
  wf (fst (fst st)) /\ shape (fst (fst st)) = [M] /\
  get 0%R (fst (fst st)) [k - 1] = (vzero * (IZR (k - 1) - xsa) * dx)%R /\
  Desc trk grad (fun a b => P0 a b \/ (EastSet a b /\ b < k)) (snd (fst st)) (snd st).

Lemma east_step trk grad M (P0 : Z -> Z -> Prop) k st :
  nx <= M -> xsi + 2 <= k < nx -> P0 (zsi + 1) (xsi + 1) -> P0 zsi (xsi + 1) ->
  InvE trk grad M P0 k st ->
  InvE trk grad M P0 (k + 1) (east_body dx dz grad slow vzero xsa zsa zsi dzu dzd (1 / dx)%R (1 / dx / dx)%R k st).
Proof.
  intros HM Hk A1 A2. destruct st as [[td tt] sg]. unfold InvE. cbn [fst snd]. intros (W & S & Htd & D).
  cbv beta zeta delta [east_body]. cbn [fst snd].
  change (@nofZ R NumR 0) with 0%R.
  rewrite (Hslow zsi (k - 1)) by lia.
  set (v := nadd (get 0%R td [k - 1]) (nmul dx vzero)).
  rewrite (get1_set_same td M k v W S ltac:(lia)).
  rewrite (get1_set_other td M k (k - 1) v S ltac:(lia) ltac:(lia) ltac:(lia)).
  assert (Kx : (IZR xsi + 2 <= IZR k)%R) by (z2r; lra).
  assert (Ev : v = (vzero * Rabs (IZR k - xsa) * dx)%R).
  { unfold v. numR'. rewrite Htd, minus_IZR. rabs. ring. }
  assert (T1 : nsub v (nmul (nmul vzero (nabs (nsub (nofZ k) xsa))) dx) = 0%R) by (rewrite Ev; numR'; ring).
  assert (T2 : nsub (get 0%R td [k - 1]) (nmul (nmul vzero (nabs (nsub (nsub (nofZ k) xsa) (nofZ 1)))) dx) = 0%R).
  { rewrite Htd, minus_IZR. numR'. rabs. ring. }
  rewrite T1, T2.
  set (tdn := set td [k] v).
  assert (Htdn : get 0%R tdn [k] = (vzero * Rabs (IZR k - xsa) * dx)%R).
  { unfold tdn. rewrite (get1_set_same td M k v W S ltac:(lia)). exact Ev. }
  assert (Hdxi : (0 <= 1 / dx)%R) by (unfold Rdiv; rewrite Rmult_1_l; left; apply Rinv_0_lt_compat; exact Hdx).
  assert (Hmono : (Rabs (IZR (k - 1) - xsa) <= Rabs (IZR k - xsa))%R) by (rewrite minus_IZR; rabs; lra).
  assert (Hsx : (0 <= IZR 1 * (IZR k - xsa))%R) by lra.
  (* first block: line zsi + 1 *)
  rewrite (blk_x_eq grad (1 / dx)%R (1 / dx / dx)%R (zsi + 1) dzd 1 1 (k - 1) k tdn tt sg Hdxi
             ltac:(rewrite plus_IZR; lra) Hsx Hmono Htdn (Desc_val trk grad _ tt sg (zsi + 1) (k - 1) D ltac:(lia) ltac:(lia))).
  cbv zeta. cbn [fst snd].
  pose proof (Desc_update trk grad _ tt sg (zsi + 1) k _ _ 1 1 D ltac:(lia) ltac:(lia)
                (Desc_cond trk grad _ tt sg (zsi + 1) (k - 1) dzd D ltac:(lia) ltac:(lia))
                ltac:(unfold sgn_of; destruct (Z.leb_spec (zsi + 1) zsi); lia)
                ltac:(unfold sgn_of; destruct (Z.leb_spec k xsi); lia)) as D1.
  match type of D1 with Desc _ _ _ ?t1 ?s1 => set (tt1 := t1) in *; set (sg1 := s1) in * end.
  (* second block: line zsi *)
  rewrite (blk_x_eq grad (1 / dx)%R (1 / dx / dx)%R zsi dzu (-1) 1 (k - 1) k tdn tt1 sg1 Hdxi
             ltac:(lra) Hsx Hmono Htdn (Desc_val trk grad _ tt1 sg1 zsi (k - 1) D1 ltac:(lia) ltac:(lia))).
  cbv zeta. cbn [fst snd].
  pose proof (Desc_update trk grad _ tt1 sg1 zsi k _ _ (-1) 1 D1 ltac:(lia) ltac:(lia)
                (Desc_cond trk grad _ tt1 sg1 zsi (k - 1) dzu D1 ltac:(lia) ltac:(lia))
                ltac:(unfold sgn_of; destruct (Z.leb_spec zsi zsi); lia)
                ltac:(unfold sgn_of; destruct (Z.leb_spec k xsi); lia)) as D2.
  split; [apply wf_set, W|]. split; [exact S|]. split.
  - replace (k + 1 - 1) with k by lia. fold tdn. rewrite Htdn. rabs. reflexivity.
  - eapply Desc_ext; [exact D2|]. clear D D1 D2 tt1 sg1.
    intros a b Ha Hb. cbv beta.
    (* the analytic time one node closer to the source is smaller *)
    assert (Mo : forall r, (ta r (k - 1) < Big)%R -> xsi + 2 <= k - 1 -> (ta r (k - 1 - 1) < Big)%R).
    { intros r Hr Hq. eapply Rle_lt_trans; [|exact Hr]. apply t_ana_mono_x; [exact Hv|].
      assert (IZR xsi + 2 <= IZR (k - 1))%R by (apply IZR_le in Hq; rewrite plus_IZR in Hq; exact Hq).
      rewrite (minus_IZR (k - 1) 1). rabs. lra. }
    assert (Reach : forall r, P0 r (xsi + 1) -> RowOK r -> (ta r (k - 1) < Big)%R ->
                      P0 r (k - 1) \/ (EastSet r (k - 1) /\ k - 1 < k)).
    { intros r Hc Hr Ht. destruct (Z.eq_dec (k - 1) (xsi + 1)) as [E|N]; [left; rewrite E; exact Hc|].
      right. split; [|lia]. split; [exact Hr|]. split; [lia|]. apply Mo; [exact Ht | lia]. }
    split.
    + intros [[Y|(-> & -> & Q1 & _ & Q3)]|(-> & -> & Q1 & _ & Q3)].
      * destruct Y as [Y|[Y Y']]; [left; exact Y | right; split; [exact Y | lia]].
      * right. split; [|lia]. split; [left; auto|]. split; [lia | exact Q3].
      * right. split; [|lia]. split; [right; auto|]. split; [lia | exact Q3].
    + intros [Y|[(Hr & Hj & Ht) Hlt]]; [left; left; left; exact Y|].
      destruct (Z.eq_dec b k) as [->|Nb]; [|left; left; right; split; [split; auto | lia]].
      destruct Hr as [[-> Hd]|[-> Hd]].
      * left. right. repeat (split; auto). apply Reach; auto. left; auto.
      * right. repeat (split; auto). left. apply Reach; auto. right; auto.
Qed.

(* a loop over the image of an ascending range, with an invariant that depends on the position *)
Lemma for_list_pos {St} (I : Z -> St -> Prop) (b : Z -> St -> St) (f : Z -> Z) n :
  forall a s, I a s ->
    (forall p x, a <= p < a + Z.of_nat n -> I p x -> I (p + 1) (b (f p) x)) ->
    I (a + Z.of_nat n) (for_list (map f (upto a n)) b s).
Proof.
  induction n as [|n IH]; intros a s H0 Hs.
  - cbn. replace (a + 0) with a by lia. exact H0.
  - rewrite upto_S. cbn [map]. rewrite for_list_cons.
    replace (a + Z.of_nat (S n)) with ((a + 1) + Z.of_nat n) by lia.
    apply IH; [apply Hs; [lia | exact H0] | intros p x Hp; apply Hs; lia].
Qed.

Lemma east_phase_desc trk grad M (P0 : Z -> Z -> Prop) td tt sg :
  wf td -> shape td = [M] -> nx <= M -> P0 (zsi + 1) (xsi + 1) -> P0 zsi (xsi + 1) ->
  Desc trk grad P0 tt sg ->
  let r := east_phase dx dz grad nx slow vzero xsa xsi zsa zsi dzu dzd dxe (td, tt, sg) in
  wf (fst (fst r)) /\ shape (fst (fst r)) = [M] /\
  Desc trk grad (fun a b => P0 a b \/ EastSet a b) (snd (fst r)) (snd r).
Proof.
  intros W S HM A1 A2 D r. subst r. unfold east_phase. cbv zeta. cbn [fst snd].
  rewrite pyrange_up. set (n := Z.to_nat (nx - (xsi + 2))).
  match goal with |- context [for_list _ ?b ?s] =>
    pose proof (for_list_pos (InvE trk grad M P0) b (fun x => x) n (xsi + 2) s) as L end.
  rewrite map_id in L. replace (xsi + 2 + Z.of_nat n) with nx in L by lia.
  destruct L as (W' & S' & _ & D').
  - unfold InvE. cbn [fst snd]. split; [apply wf_set, W|]. split; [exact S|]. split.
    + replace (xsi + 2 - 1) with (xsi + 1) by lia.
      rewrite (get1_set_same td M (xsi + 1) _ W S ltac:(lia)). numR'. rewrite Hdxe, plus_IZR. ring.
    + eapply Desc_ext; [exact D|]. intros a b _ _. split; [tauto|].
      intros [Y|[(_ & Y & _) Y']]; [exact Y | lia].
  - intros p x Hp Hx. apply east_step; auto; lia.
  - split; [exact W'|]. split; [exact S'|]. eapply Desc_ext; [exact D'|].
    intros a b _ Hb. cbv beta. split; [tauto|]. intros [Y|Y]; [left; exact Y | right; split; [exact Y | lia]].
Qed.

(* ---------- west ---------- *)
Definition InvW trk grad M (P0 : Z -> Z -> Prop) (k : Z) (st : arr R * arr R * arr Z) : Prop :=
  wf (fst (fst st)) /\ shape (fst (fst st)) = [M] /\
  get 0%R (fst (fst st)) [k + 1] = (vzero * (xsa - IZR (k + 1)) * dx)%R /\
  Desc trk grad (fun a b => P0 a b \/ (WestSet a b /\ k < b)) (snd (fst st)) (snd st).

Lemma west_step trk grad M (P0 : Z -> Z -> Prop) k st :
  nx <= M -> 0 <= k <= xsi - 1 -> P0 (zsi + 1) xsi -> P0 zsi xsi ->
  InvW trk grad M P0 k st ->
  InvW trk grad M P0 (k - 1) (west_body dx dz grad slow vzero xsa zsa zsi dzu dzd (1 / dx)%R (1 / dx / dx)%R k st).
Proof.
  intros HM Hk A1 A2. destruct st as [[td tt] sg]. unfold InvW. cbn [fst snd]. intros (W & S & Htd & D).
  cbv beta zeta delta [west_body]. cbn [fst snd].
  change (@nofZ R NumR 0) with 0%R.
  rewrite (Hslow zsi k) by lia.
  set (v := nadd (get 0%R td [k + 1]) (nmul dx vzero)).
  rewrite (get1_set_same td M k v W S ltac:(lia)).
  rewrite (get1_set_other td M k (k + 1) v S ltac:(lia) ltac:(lia) ltac:(lia)).
  assert (Kx : (IZR k + 1 <= IZR xsi)%R) by (z2r; lra).
  assert (Ev : v = (vzero * Rabs (IZR k - xsa) * dx)%R).
  { unfold v. numR'. rewrite Htd, plus_IZR. rabs. ring. }
  assert (T1 : nsub v (nmul (nmul vzero (nabs (nsub (nofZ k) xsa))) dx) = 0%R) by (rewrite Ev; numR'; ring).
  assert (T2 : nsub (get 0%R td [k + 1]) (nmul (nmul vzero (nabs (nadd (nsub (nofZ k) xsa) (nofZ 1)))) dx) = 0%R).
  { rewrite Htd, plus_IZR. numR'. rabs. ring. }
  rewrite T1, T2.
  set (tdn := set td [k] v).
  assert (Htdn : get 0%R tdn [k] = (vzero * Rabs (IZR k - xsa) * dx)%R).
  { unfold tdn. rewrite (get1_set_same td M k v W S ltac:(lia)). exact Ev. }
  assert (Hdxi : (0 <= 1 / dx)%R) by (unfold Rdiv; rewrite Rmult_1_l; left; apply Rinv_0_lt_compat; exact Hdx).
  assert (Hmono : (Rabs (IZR (k + 1) - xsa) <= Rabs (IZR k - xsa))%R) by (rewrite plus_IZR; rabs; lra).
  assert (Hsx : (0 <= IZR (-1) * (IZR k - xsa))%R) by lra.
  (* first block: line zsi + 1 *)
  rewrite (blk_x_eq grad (1 / dx)%R (1 / dx / dx)%R (zsi + 1) dzd 1 (-1) (k + 1) k tdn tt sg Hdxi
             ltac:(rewrite plus_IZR; lra) Hsx Hmono Htdn (Desc_val trk grad _ tt sg (zsi + 1) (k + 1) D ltac:(lia) ltac:(lia))).
  cbv zeta. cbn [fst snd].
  pose proof (Desc_update trk grad _ tt sg (zsi + 1) k _ _ 1 (-1) D ltac:(lia) ltac:(lia)
                (Desc_cond trk grad _ tt sg (zsi + 1) (k + 1) dzd D ltac:(lia) ltac:(lia))
                ltac:(unfold sgn_of; destruct (Z.leb_spec (zsi + 1) zsi); lia)
                ltac:(unfold sgn_of; destruct (Z.leb_spec k xsi); lia)) as D1.
  match type of D1 with Desc _ _ _ ?t1 ?s1 => set (tt1 := t1) in *; set (sg1 := s1) in * end.
  (* second block: line zsi *)
  rewrite (blk_x_eq grad (1 / dx)%R (1 / dx / dx)%R zsi dzu (-1) (-1) (k + 1) k tdn tt1 sg1 Hdxi
             ltac:(lra) Hsx Hmono Htdn (Desc_val trk grad _ tt1 sg1 zsi (k + 1) D1 ltac:(lia) ltac:(lia))).
  cbv zeta. cbn [fst snd].
  pose proof (Desc_update trk grad _ tt1 sg1 zsi k _ _ (-1) (-1) D1 ltac:(lia) ltac:(lia)
                (Desc_cond trk grad _ tt1 sg1 zsi (k + 1) dzu D1 ltac:(lia) ltac:(lia))
                ltac:(unfold sgn_of; destruct (Z.leb_spec zsi zsi); lia)
                ltac:(unfold sgn_of; destruct (Z.leb_spec k xsi); lia)) as D2.
  split; [apply wf_set, W|]. split; [exact S|]. split.
  - replace (k - 1 + 1) with k by lia. fold tdn. rewrite Htdn. rabs. ring.
  - eapply Desc_ext; [exact D2|]. clear D D1 D2 tt1 sg1.
    intros a b Ha Hb. cbv beta.
    assert (Mo : forall r, (ta r (k + 1) < Big)%R -> k + 1 <= xsi - 1 -> (ta r (k + 1 + 1) < Big)%R).
    { intros r Hr Hq. eapply Rle_lt_trans; [|exact Hr]. apply t_ana_mono_x; [exact Hv|].
      assert (IZR (k + 1) <= IZR xsi - 1)%R by (apply IZR_le in Hq; rewrite minus_IZR in Hq; exact Hq).
      rewrite (plus_IZR (k + 1) 1). rabs. lra. }
    assert (Reach : forall r, P0 r xsi -> RowOK r -> (ta r (k + 1) < Big)%R ->
                      P0 r (k + 1) \/ (WestSet r (k + 1) /\ k < k + 1)).
    { intros r Hc Hr Ht. destruct (Z.eq_dec (k + 1) xsi) as [E|N]; [left; rewrite E; exact Hc|].
      right. split; [|lia]. split; [exact Hr|]. split; [lia|]. apply Mo; [exact Ht | lia]. }
    split.
    + intros [[Y|(-> & -> & Q1 & _ & Q3)]|(-> & -> & Q1 & _ & Q3)].
      * destruct Y as [Y|[Y Y']]; [left; exact Y | right; split; [exact Y | lia]].
      * right. split; [|lia]. split; [left; auto|]. split; [lia | exact Q3].
      * right. split; [|lia]. split; [right; auto|]. split; [lia | exact Q3].
    + intros [Y|[(Hr & Hj & Ht) Hlt]]; [left; left; left; exact Y|].
      destruct (Z.eq_dec b k) as [->|Nb]; [|left; left; right; split; [split; auto | lia]].
      destruct Hr as [[-> Hd]|[-> Hd]].
      * left. right. repeat (split; auto). apply Reach; auto. left; auto.
      * right. repeat (split; auto). left. apply Reach; auto. right; auto.
Qed.

Lemma west_phase_desc trk grad M (P0 : Z -> Z -> Prop) td tt sg :
  wf td -> shape td = [M] -> nx <= M -> P0 (zsi + 1) xsi -> P0 zsi xsi ->
  Desc trk grad P0 tt sg ->
  let r := west_phase dx dz grad slow vzero xsa xsi zsa zsi dzu dzd dxw (td, tt, sg) in
  wf (fst (fst r)) /\ shape (fst (fst r)) = [M] /\
  Desc trk grad (fun a b => P0 a b \/ WestSet a b) (snd (fst r)) (snd r).
Proof.
  intros W S HM A1 A2 D r. subst r. unfold west_phase. cbv zeta. cbn [fst snd].
  rewrite (pyrange_down (xsi - 1) (xsi - 1)). replace (xsi - 1 - (xsi - 1)) with 0 by lia.
  set (n := Z.to_nat (xsi - 1 + 1)).
  match goal with |- context [for_list _ ?b ?s] =>
    pose proof (for_list_pos (fun q => InvW trk grad M P0 (xsi - 1 - q)) b (fun i => xsi - 1 - i) n 0 s) as L end.
  cbv beta in L. replace (xsi - 1 - (0 + Z.of_nat n)) with (-1) in L by lia.
  destruct L as (W' & S' & _ & D').
  - unfold InvW. cbn [fst snd]. split; [apply wf_set, W|]. split; [exact S|]. split.
    + replace (xsi - 1 - 0 + 1) with xsi by lia.
      rewrite (get1_set_same td M xsi _ W S ltac:(lia)). numR'. rewrite Hdxw. ring.
    + eapply Desc_ext; [exact D|]. intros a b _ _. split; [tauto|].
      intros [Y|[(_ & Y & _) Y']]; [exact Y | lia].
  - intros p x Hp Hx. replace (xsi - 1 - (p + 1)) with (xsi - 1 - p - 1) by lia. apply west_step; auto; lia.
  - split; [exact W'|]. split; [exact S'|]. eapply Desc_ext; [exact D'|].
    intros a b _ Hb. cbv beta. split; [tauto|]. intros [Y|Y]; [left; exact Y | right; split; [exact Y | lia]].
Qed.

(* ---------- down ---------- *)
Definition InvD trk grad M (P0 : Z -> Z -> Prop) (k : Z) (st : arr R * arr R * arr Z) : Prop :=
  wf (fst (fst st)) /\ shape (fst (fst st)) = [M] /\
  get 0%R (fst (fst st)) [k - 1] = (vzero * (IZR (k - 1) - zsa) * dz)%R /\
  Desc trk grad (fun a b => P0 a b \/ (DownSet a b /\ a < k)) (snd (fst st)) (snd st).

Lemma down_step trk grad M (P0 : Z -> Z -> Prop) k st :
  nz <= M -> zsi + 2 <= k < nz -> P0 (zsi + 1) (xsi + 1) -> P0 (zsi + 1) xsi ->
  InvD trk grad M P0 k st ->
  InvD trk grad M P0 (k + 1) (down_body dx dz grad slow vzero xsa zsa xsi dxw dxe (1 / dz)%R (1 / dz / dz)%R k st).
Proof.
  intros HM Hk A1 A2. destruct st as [[td tt] sg]. unfold InvD. cbn [fst snd]. intros (W & S & Htd & D).
  cbv beta zeta delta [down_body]. cbn [fst snd].
  change (@nofZ R NumR 0) with 0%R.
  rewrite (Hslow (k - 1) xsi) by lia.
  set (v := nadd (get 0%R td [k - 1]) (nmul dz vzero)).
  rewrite (get1_set_same td M k v W S ltac:(lia)).
  rewrite (get1_set_other td M k (k - 1) v S ltac:(lia) ltac:(lia) ltac:(lia)).
  assert (Kx : (IZR zsi + 2 <= IZR k)%R) by (z2r; lra).
  assert (Ev : v = (vzero * Rabs (IZR k - zsa) * dz)%R).
  { unfold v. numR'. rewrite Htd, minus_IZR. rabs. ring. }
  assert (T1 : nsub v (nmul (nmul vzero (nabs (nsub (nofZ k) zsa))) dz) = 0%R) by (rewrite Ev; numR'; ring).
  assert (T2 : nsub (get 0%R td [k - 1]) (nmul (nmul vzero (nabs (nsub (nsub (nofZ k) zsa) (nofZ 1)))) dz) = 0%R).
  { rewrite Htd, minus_IZR. numR'. rabs. ring. }
  rewrite T1, T2.
  set (tdn := set td [k] v).
  assert (Htdn : get 0%R tdn [k] = (vzero * Rabs (IZR k - zsa) * dz)%R).
  { unfold tdn. rewrite (get1_set_same td M k v W S ltac:(lia)). exact Ev. }
  assert (Hdzi : (0 <= 1 / dz)%R) by (unfold Rdiv; rewrite Rmult_1_l; left; apply Rinv_0_lt_compat; exact Hdz).
  assert (Hmono : (Rabs (IZR (k - 1) - zsa) <= Rabs (IZR k - zsa))%R) by (rewrite minus_IZR; rabs; lra).
  assert (Hsz : (0 <= IZR 1 * (IZR k - zsa))%R) by lra.
  (* first block: line xsi + 1 *)
  rewrite (blk_z_eq grad (1 / dz)%R (1 / dz / dz)%R (xsi + 1) dxe 1 1 (k - 1) k tdn tt sg Hdzi
             Hsz ltac:(rewrite plus_IZR; lra) Hmono Htdn (Desc_val trk grad _ tt sg (k - 1) (xsi + 1) D ltac:(lia) ltac:(lia))).
  cbv zeta. cbn [fst snd].
  pose proof (Desc_update trk grad _ tt sg k (xsi + 1) _ _ 1 1 D ltac:(lia) ltac:(lia)
                (Desc_cond trk grad _ tt sg (k - 1) (xsi + 1) dxe D ltac:(lia) ltac:(lia))
                ltac:(unfold sgn_of; destruct (Z.leb_spec k zsi); lia)
                ltac:(unfold sgn_of; destruct (Z.leb_spec (xsi + 1) xsi); lia)) as D1.
  match type of D1 with Desc _ _ _ ?t1 ?s1 => set (tt1 := t1) in *; set (sg1 := s1) in * end.
  (* second block: line xsi *)
  rewrite (blk_z_eq grad (1 / dz)%R (1 / dz / dz)%R xsi dxw 1 (-1) (k - 1) k tdn tt1 sg1 Hdzi
             Hsz ltac:(lra) Hmono Htdn (Desc_val trk grad _ tt1 sg1 (k - 1) xsi D1 ltac:(lia) ltac:(lia))).
  cbv zeta. cbn [fst snd].
  pose proof (Desc_update trk grad _ tt1 sg1 k xsi _ _ 1 (-1) D1 ltac:(lia) ltac:(lia)
                (Desc_cond trk grad _ tt1 sg1 (k - 1) xsi dxw D1 ltac:(lia) ltac:(lia))
                ltac:(unfold sgn_of; destruct (Z.leb_spec k zsi); lia)
                ltac:(unfold sgn_of; destruct (Z.leb_spec xsi xsi); lia)) as D2.
  split; [apply wf_set, W|]. split; [exact S|]. split.
  - replace (k + 1 - 1) with k by lia. fold tdn. rewrite Htdn. rabs. reflexivity.
  - eapply Desc_ext; [exact D2|]. clear D D1 D2 tt1 sg1.
    intros a b Ha Hb. cbv beta.
    assert (Mo : forall c, (ta (k - 1) c < Big)%R -> zsi + 2 <= k - 1 -> (ta (k - 1 - 1) c < Big)%R).
    { intros c Hr Hq. eapply Rle_lt_trans; [|exact Hr]. apply t_ana_mono_z; [exact Hv|].
      assert (IZR zsi + 2 <= IZR (k - 1))%R by (apply IZR_le in Hq; rewrite plus_IZR in Hq; exact Hq).
      rewrite (minus_IZR (k - 1) 1). rabs. lra. }
    assert (Reach : forall c, P0 (zsi + 1) c -> ColOK c -> (ta (k - 1) c < Big)%R ->
                      P0 (k - 1) c \/ (DownSet (k - 1) c /\ k - 1 < k)).
    { intros c Hc Hr Ht. destruct (Z.eq_dec (k - 1) (zsi + 1)) as [E|N]; [left; rewrite E; exact Hc|].
      right. split; [|lia]. split; [exact Hr|]. split; [lia|]. apply Mo; [exact Ht | lia]. }
    split.
    + intros [[Y|(-> & -> & Q1 & _ & Q3)]|(-> & -> & Q1 & _ & Q3)].
      * destruct Y as [Y|[Y Y']]; [left; exact Y | right; split; [exact Y | lia]].
      * right. split; [|lia]. split; [left; auto|]. split; [lia | exact Q3].
      * right. split; [|lia]. split; [right; auto|]. split; [lia | exact Q3].
    + intros [Y|[(Hr & Hj & Ht) Hlt]]; [left; left; left; exact Y|].
      destruct (Z.eq_dec a k) as [->|Nb]; [|left; left; right; split; [split; auto | lia]].
      destruct Hr as [[-> Hd]|[-> Hd]].
      * left. right. repeat (split; auto). apply Reach; auto. left; auto.
      * right. repeat (split; auto). left. apply Reach; auto. right; auto.
Qed.

Lemma down_phase_desc trk grad M (P0 : Z -> Z -> Prop) td tt sg :
  wf td -> shape td = [M] -> nz <= M -> P0 (zsi + 1) (xsi + 1) -> P0 (zsi + 1) xsi ->
  Desc trk grad P0 tt sg ->
  let r := down_phase dx dz grad nz slow vzero xsa xsi zsa zsi dxw dxe dzd (td, tt, sg) in
  wf (fst (fst r)) /\ shape (fst (fst r)) = [M] /\
  Desc trk grad (fun a b => P0 a b \/ DownSet a b) (snd (fst r)) (snd r).
Proof.
  intros W S HM A1 A2 D r. subst r. unfold down_phase. cbv zeta. cbn [fst snd].
  rewrite pyrange_up. set (n := Z.to_nat (nz - (zsi + 2))).
  match goal with |- context [for_list _ ?b ?s] =>
    pose proof (for_list_pos (InvD trk grad M P0) b (fun x => x) n (zsi + 2) s) as L end.
  rewrite map_id in L. replace (zsi + 2 + Z.of_nat n) with nz in L by lia.
  destruct L as (W' & S' & _ & D').
  - unfold InvD. cbn [fst snd]. split; [apply wf_set, W|]. split; [exact S|]. split.
    + replace (zsi + 2 - 1) with (zsi + 1) by lia.
      rewrite (get1_set_same td M (zsi + 1) _ W S ltac:(lia)). numR'. rewrite Hdzd, plus_IZR. ring.
    + eapply Desc_ext; [exact D|]. intros a b _ _. split; [tauto|].
      intros [Y|[(_ & Y & _) Y']]; [exact Y | lia].
  - intros p x Hp Hx. apply down_step; auto; lia.
  - split; [exact W'|]. split; [exact S'|]. eapply Desc_ext; [exact D'|].
    intros a b Ha _. cbv beta. split; [tauto|]. intros [Y|Y]; [left; exact Y | right; split; [exact Y | lia]].
Qed.

(* ---------- up ---------- *)
Definition InvU trk grad M (P0 : Z -> Z -> Prop) (k : Z) (st : arr R * arr R * arr Z) : Prop :=
  wf (fst (fst st)) /\ shape (fst (fst st)) = [M] /\
  get 0%R (fst (fst st)) [k + 1] = (vzero * (zsa - IZR (k + 1)) * dz)%R /\
  Desc trk grad (fun a b => P0 a b \/ (UpSet a b /\ k < a)) (snd (fst st)) (snd st).

Lemma up_step trk grad M (P0 : Z -> Z -> Prop) k st :
  nz <= M -> 0 <= k <= zsi - 1 -> P0 zsi (xsi + 1) -> P0 zsi xsi ->
  InvU trk grad M P0 k st ->
  InvU trk grad M P0 (k - 1) (up_body dx dz grad slow vzero xsa zsa xsi dxw dxe (1 / dz)%R (1 / dz / dz)%R k st).
Proof.
  intros HM Hk A1 A2. destruct st as [[td tt] sg]. unfold InvU. cbn [fst snd]. intros (W & S & Htd & D).
  cbv beta zeta delta [up_body]. cbn [fst snd].
  change (@nofZ R NumR 0) with 0%R.
  rewrite (Hslow k xsi) by lia.
  set (v := nadd (get 0%R td [k + 1]) (nmul dz vzero)).
  rewrite (get1_set_same td M k v W S ltac:(lia)).
  rewrite (get1_set_other td M k (k + 1) v S ltac:(lia) ltac:(lia) ltac:(lia)).
  assert (Kx : (IZR k + 1 <= IZR zsi)%R) by (z2r; lra).
  assert (Ev : v = (vzero * Rabs (IZR k - zsa) * dz)%R).
  { unfold v. numR'. rewrite Htd, plus_IZR. rabs. ring. }
  assert (T1 : nsub v (nmul (nmul vzero (nabs (nsub (nofZ k) zsa))) dz) = 0%R) by (rewrite Ev; numR'; ring).
  assert (T2 : nsub (get 0%R td [k + 1]) (nmul (nmul vzero (nabs (nadd (nsub (nofZ k) zsa) (nofZ 1)))) dz) = 0%R).
  { rewrite Htd, plus_IZR. numR'. rabs. ring. }
  rewrite T1, T2.
  set (tdn := set td [k] v).
  assert (Htdn : get 0%R tdn [k] = (vzero * Rabs (IZR k - zsa) * dz)%R).
  { unfold tdn. rewrite (get1_set_same td M k v W S ltac:(lia)). exact Ev. }
  assert (Hdzi : (0 <= 1 / dz)%R) by (unfold Rdiv; rewrite Rmult_1_l; left; apply Rinv_0_lt_compat; exact Hdz).
  assert (Hmono : (Rabs (IZR (k + 1) - zsa) <= Rabs (IZR k - zsa))%R) by (rewrite plus_IZR; rabs; lra).
  assert (Hsz : (0 <= IZR (-1) * (IZR k - zsa))%R) by lra.
  (* first block: line xsi + 1 *)
  rewrite (blk_z_eq grad (1 / dz)%R (1 / dz / dz)%R (xsi + 1) dxe (-1) 1 (k + 1) k tdn tt sg Hdzi
             Hsz ltac:(rewrite plus_IZR; lra) Hmono Htdn (Desc_val trk grad _ tt sg (k + 1) (xsi + 1) D ltac:(lia) ltac:(lia))).
  cbv zeta. cbn [fst snd].
  pose proof (Desc_update trk grad _ tt sg k (xsi + 1) _ _ (-1) 1 D ltac:(lia) ltac:(lia)
                (Desc_cond trk grad _ tt sg (k + 1) (xsi + 1) dxe D ltac:(lia) ltac:(lia))
                ltac:(unfold sgn_of; destruct (Z.leb_spec k zsi); lia)
                ltac:(unfold sgn_of; destruct (Z.leb_spec (xsi + 1) xsi); lia)) as D1.
  match type of D1 with Desc _ _ _ ?t1 ?s1 => set (tt1 := t1) in *; set (sg1 := s1) in * end.
  (* second block: line xsi *)
  rewrite (blk_z_eq grad (1 / dz)%R (1 / dz / dz)%R xsi dxw (-1) (-1) (k + 1) k tdn tt1 sg1 Hdzi
             Hsz ltac:(lra) Hmono Htdn (Desc_val trk grad _ tt1 sg1 (k + 1) xsi D1 ltac:(lia) ltac:(lia))).
  cbv zeta. cbn [fst snd].
  pose proof (Desc_update trk grad _ tt1 sg1 k xsi _ _ (-1) (-1) D1 ltac:(lia) ltac:(lia)
                (Desc_cond trk grad _ tt1 sg1 (k + 1) xsi dxw D1 ltac:(lia) ltac:(lia))
                ltac:(unfold sgn_of; destruct (Z.leb_spec k zsi); lia)
                ltac:(unfold sgn_of; destruct (Z.leb_spec xsi xsi); lia)) as D2.
  split; [apply wf_set, W|]. split; [exact S|]. split.
  - replace (k - 1 + 1) with k by lia. fold tdn. rewrite Htdn. rabs. ring.
  - eapply Desc_ext; [exact D2|]. clear D D1 D2 tt1 sg1.
    intros a b Ha Hb. cbv beta.
    assert (Mo : forall c, (ta (k + 1) c < Big)%R -> k + 1 <= zsi - 1 -> (ta (k + 1 + 1) c < Big)%R).
    { intros c Hr Hq. eapply Rle_lt_trans; [|exact Hr]. apply t_ana_mono_z; [exact Hv|].
      assert (IZR (k + 1) <= IZR zsi - 1)%R by (apply IZR_le in Hq; rewrite minus_IZR in Hq; exact Hq).
      rewrite (plus_IZR (k + 1) 1). rabs. lra. }
    assert (Reach : forall c, P0 zsi c -> ColOK c -> (ta (k + 1) c < Big)%R ->
                      P0 (k + 1) c \/ (UpSet (k + 1) c /\ k < k + 1)).
    { intros c Hc Hr Ht. destruct (Z.eq_dec (k + 1) zsi) as [E|N]; [left; rewrite E; exact Hc|].
      right. split; [|lia]. split; [exact Hr|]. split; [lia|]. apply Mo; [exact Ht | lia]. }
    split.
    + intros [[Y|(-> & -> & Q1 & _ & Q3)]|(-> & -> & Q1 & _ & Q3)].
      * destruct Y as [Y|[Y Y']]; [left; exact Y | right; split; [exact Y | lia]].
      * right. split; [|lia]. split; [left; auto|]. split; [lia | exact Q3].
      * right. split; [|lia]. split; [right; auto|]. split; [lia | exact Q3].
    + intros [Y|[(Hr & Hj & Ht) Hlt]]; [left; left; left; exact Y|].
      destruct (Z.eq_dec a k) as [->|Nb]; [|left; left; right; split; [split; auto | lia]].
      destruct Hr as [[-> Hd]|[-> Hd]].
      * left. right. repeat (split; auto). apply Reach; auto. left; auto.
      * right. repeat (split; auto). left. apply Reach; auto. right; auto.
Qed.

Lemma up_phase_desc trk grad M (P0 : Z -> Z -> Prop) td tt sg :
  wf td -> shape td = [M] -> nz <= M -> P0 zsi (xsi + 1) -> P0 zsi xsi ->
  Desc trk grad P0 tt sg ->
  let r := up_phase dx dz grad slow vzero xsa xsi zsa zsi dxw dxe dzu (td, tt, sg) in
  wf (fst (fst r)) /\ shape (fst (fst r)) = [M] /\
  Desc trk grad (fun a b => P0 a b \/ UpSet a b) (snd (fst r)) (snd r).
Proof.
  intros W S HM A1 A2 D r. subst r. unfold up_phase. cbv zeta. cbn [fst snd].
  rewrite (pyrange_down (zsi - 1) (zsi - 1)). replace (zsi - 1 - (zsi - 1)) with 0 by lia.
  set (n := Z.to_nat (zsi - 1 + 1)).
  match goal with |- context [for_list _ ?b ?s] =>
    pose proof (for_list_pos (fun q => InvU trk grad M P0 (zsi - 1 - q)) b (fun i => zsi - 1 - i) n 0 s) as L end.
  cbv beta in L. replace (zsi - 1 - (0 + Z.of_nat n)) with (-1) in L by lia.
  destruct L as (W' & S' & _ & D').
  - unfold InvU. cbn [fst snd]. split; [apply wf_set, W|]. split; [exact S|]. split.
    + replace (zsi - 1 - 0 + 1) with zsi by lia.
      rewrite (get1_set_same td M zsi _ W S ltac:(lia)). numR'. rewrite Hdzu. ring.
    + eapply Desc_ext; [exact D|]. intros a b _ _. split; [tauto|].
      intros [Y|[(_ & Y & _) Y']]; [exact Y | lia].
  - intros p x Hp Hx. replace (zsi - 1 - (p + 1)) with (zsi - 1 - p - 1) by lia. apply up_step; auto; lia.
  - split; [exact W'|]. split; [exact S'|]. eapply Desc_ext; [exact D'|].
    intros a b Ha _. cbv beta. split; [tauto|]. intros [Y|Y]; [left; exact Y | right; split; [exact Y | lia]].
Qed.

(* ---------- the corners of the source cell ---------- *)
Lemma corner_fst grad i j (tt tg : arr R) :
  fst (corner dx dz grad vzero xsa zsa i j tt tg) = set tt [i; j] (ta i j).
Proof. unfold corner. cbv zeta. cbn [fst]. rewrite t_anad_fst. reflexivity. Qed.

Lemma Desc_set_corner trk grad (P : Z -> Z -> Prop) tt sg i j :
  Desc trk grad P tt sg -> 0 <= i < nz -> 0 <= j < nx -> Corner i j ->
  Desc trk grad (fun a b => P a b \/ (a = i /\ b = j)) (set tt [i; j] (ta i j)) sg.
Proof.
  intros (W & S & Dec & Hget & Hsg) Hi Hj Hc.
  assert (I0 : inb tt [i; j] = true) by (eapply inb2_true; eauto).
  split; [apply wf_set, W|]. split; [exact S|]. split; [|split].
  - intros a b Ha Hb. destruct (Dec a b Ha Hb) as [Y|N]; [left; left; exact Y|].
    destruct (Z.eq_dec a i) as [->|Na]; [destruct (Z.eq_dec b j) as [->|Nb]|].
    + left. right. auto.
    + right. intros [Y|(_ & E)]; [exact (N Y) | exact (Nb E)].
    + right. intros [Y|(E & _)]; [exact (N Y) | exact (Na E)].
  - intros a b Ha Hb. destruct (list_eq_dec_Z [i; j] [a; b]) as [E|N].
    + injection E as <- <-. rewrite get_set_same by assumption. split; [reflexivity|].
      intros Hn. exfalso. apply Hn. right. auto.
    + rewrite get_set_other; [| exact I0 | eapply inb2_true; eauto | exact N].
      destruct (Hget a b Ha Hb) as [G1 G2]. apply idx2_neq in N. split.
      * intros [Y|E]; [exact (G1 Y) | exfalso; apply N; exact E].
      * intros Hn. apply G2. intros Y. apply Hn. left. exact Y.
  - intros Hg. destruct (Hsg Hg) as (Eg & Ws & Ss & Hs). split; [exact Eg|]. split; [exact Ws|]. split; [exact Ss|].
    intros a b Ha Hb [Y|[-> ->]] Hnc; [apply Hs; assumption | contradiction].
Qed.

Lemma corners_desc trk grad tt tg sg :
  wf tt -> shape tt = [nz; nx] ->
  (forall i j, 0 <= i < nz -> 0 <= j < nx -> get 0%R tt [i; j] = Big) ->
  (trk = true -> grad = true /\ wf sg /\ shape sg = [nz; nx; 2]) ->
  Desc trk grad Corner (fst (init_corners dx dz grad vzero xsa xsi zsa zsi tt tg)) sg.
Proof.
  intros W S Hbig Hsg.
  assert (D : Desc trk grad (fun _ _ => False) tt sg).
  { split; [exact W|]. split; [exact S|]. split; [|split].
    - intros; right; tauto.
    - intros i j Hi Hj. split; [tauto | intros _; apply Hbig; assumption].
    - intros Hg. destruct (Hsg Hg) as (? & ? & ?). repeat (split; [assumption|]). intros; tauto. }
  unfold init_corners. cbv zeta. rewrite !corner_fst.
  assert (C1 : Corner zsi xsi) by (unfold Corner; lia).
  assert (C2 : Corner (zsi + 1) xsi) by (unfold Corner; lia).
  assert (C3 : Corner zsi (xsi + 1)) by (unfold Corner; lia).
  assert (C4 : Corner (zsi + 1) (xsi + 1)) by (unfold Corner; lia).
  pose proof (Desc_set_corner trk grad _ _ _ zsi xsi D ltac:(lia) ltac:(lia) C1) as D1.
  pose proof (Desc_set_corner trk grad _ _ _ (zsi + 1) xsi D1 ltac:(lia) ltac:(lia) C2) as D2.
  pose proof (Desc_set_corner trk grad _ _ _ zsi (xsi + 1) D2 ltac:(lia) ltac:(lia) C3) as D3.
  pose proof (Desc_set_corner trk grad _ _ _ (zsi + 1) (xsi + 1) D3 ltac:(lia) ltac:(lia) C4) as D4.
  eapply Desc_ext; [exact D4|]. intros a b _ _. unfold Corner. cbv beta. lia.
Qed.

(* ---------- the whole initialisation ---------- *)
Definition InitSet (i j : Z) : Prop := Corner i j \/ EastSet i j \/ WestSet i j \/ DownSet i j \/ UpSet i j.

Theorem init_desc trk grad tt tg sg :
  wf tt -> shape tt = [nz; nx] ->
  (forall i j, 0 <= i < nz -> 0 <= j < nx -> get 0%R tt [i; j] = Big) ->
  (trk = true -> grad = true /\ wf sg /\ shape sg = [nz; nx; 2]) ->
  Desc trk grad InitSet
    (fst (fst (fteik2d_p2 dx dz grad 2 nx nz slow tt tg sg vzero xsa xsi zsa zsi)))
    (snd (fteik2d_p2 dx dz grad 2 nx nz slow tt tg sg vzero xsa xsi zsa zsi)).
Proof.
  intros W S Hbig Hsg.
  rewrite fteik2d_p2_decompose. change (2 =? 2) with true. cbv iota zeta. cbn [fst snd].
  change (nabs (nsub zsa (nofZ zsi))) with (Rabs (zsa - IZR zsi)).
  change (nabs (nsub xsa (nofZ xsi))) with (Rabs (xsa - IZR xsi)).
  rewrite (Rabs_pos_eq (zsa - IZR zsi)), (Rabs_pos_eq (xsa - IZR xsi)) by lra.
  rewrite <- Hdzu, <- Hdxw.
  change (nsub (nofZ 1) dzu) with (1 - dzu)%R. change (nsub (nofZ 1) dxw) with (1 - dxw)%R.
  replace (1 - dzu)%R with dzd by (rewrite Hdzu, Hdzd; ring).
  replace (1 - dxw)%R with dxe by (rewrite Hdxw, Hdxe; ring).
  set (M := Z.max nz nx).
  assert (W0 : wf (full [M] (@Big R NumR))) by (apply wf_full; repeat constructor; lia).
  pose proof (corners_desc trk grad tt tg sg W S Hbig Hsg) as D0.
  set (c := init_corners dx dz grad vzero xsa xsi zsa zsi tt tg) in *.
  assert (C1 : Corner zsi xsi) by (unfold Corner; lia).
  assert (C2 : Corner (zsi + 1) xsi) by (unfold Corner; lia).
  assert (C3 : Corner zsi (xsi + 1)) by (unfold Corner; lia).
  assert (C4 : Corner (zsi + 1) (xsi + 1)) by (unfold Corner; lia).
  destruct (east_phase_desc trk grad M Corner (full [M] Big) (fst c) sg W0 eq_refl ltac:(lia) C4 C3 D0) as (W1 & S1 & D1).
  set (st1 := east_phase dx dz grad nx slow vzero xsa xsi zsa zsi dzu dzd dxe (full [M] Big, fst c, sg)) in *.
  destruct (west_phase_desc trk grad M _ (fst (fst st1)) (snd (fst st1)) (snd st1) W1 S1 ltac:(lia)
              (or_introl C2) (or_introl C1) D1) as (W2 & S2 & D2).
  change (west_phase dx dz grad slow vzero xsa xsi zsa zsi dzu dzd dxw (fst (fst st1), snd (fst st1), snd st1))
    with (west_phase dx dz grad slow vzero xsa xsi zsa zsi dzu dzd dxw st1) in *.
  set (st2 := west_phase dx dz grad slow vzero xsa xsi zsa zsi dzu dzd dxw st1) in *.
  assert (W2' : wf (fill (fst (fst st2)) (@Big R NumR))).
  { unfold fill. rewrite S2. apply wf_full. repeat constructor; lia. }
  assert (S2' : shape (fill (fst (fst st2)) (@Big R NumR)) = [M]) by (unfold fill; rewrite S2; reflexivity).
  destruct (down_phase_desc trk grad M _ _ (snd (fst st2)) (snd st2) W2' S2' ltac:(lia)
              (or_introl (or_introl C4)) (or_introl (or_introl C2)) D2) as (W3 & S3 & D3).
  set (st3 := down_phase dx dz grad nz slow vzero xsa xsi zsa zsi dxw dxe dzd
                (fill (fst (fst st2)) Big, snd (fst st2), snd st2)) in *.
  destruct (up_phase_desc trk grad M _ (fst (fst st3)) (snd (fst st3)) (snd st3) W3 S3 ltac:(lia)
              (or_introl (or_introl (or_introl C3))) (or_introl (or_introl (or_introl C1))) D3) as (_ & _ & D4).
  change (up_phase dx dz grad slow vzero xsa xsi zsa zsi dxw dxe dzu (fst (fst st3), snd (fst st3), snd st3))
    with (up_phase dx dz grad slow vzero xsa xsi zsa zsi dxw dxe dzu st3) in D4.
  eapply Desc_ext; [exact D4|]. intros a b _ _. unfold InitSet. cbv beta. tauto.
Qed.
End Homog.

(* ========================================================================================== *)
(* C. C01: the source-line initialisation is exact in a homogeneous medium                      *)
(* ========================================================================================== *)
(* the nodes written by the initialisation, with the fractional distances as the code computes them *)
Definition init_set (dz dx vzero zsa xsa : R) (zsi xsi : Z) (i j : Z) : Prop :=
  let dzu := Rabs (zsa - IZR zsi) in let dzd := (1 - dzu)%R in
  let dxw := Rabs (xsa - IZR xsi) in let dxe := (1 - dxw)%R in
  InitSet dz dx vzero zsa xsa zsi xsi dzu dzd dxw dxe i j.

(* ... spelled out: the four corners of the source cell; on the two rows of the source cell (row zsi + 1 only if
   dzd > 0, row zsi only if dzu > 0) the nodes east and west of the cell as long as the previous node of the row is
   below Big; likewise on the two columns of the source cell *)
Lemma init_set_spelled_out dz dx vzero zsa xsa zsi xsi i j :
  let dzu := Rabs (zsa - IZR zsi) in let dzd := (1 - dzu)%R in
  let dxw := Rabs (xsa - IZR xsi) in let dxe := (1 - dxw)%R in
  let ta a b := t_ana a b dz dx zsa xsa vzero in
  let row_ok := (i = zsi + 1 /\ (0 < dzd)%R) \/ (i = zsi /\ (0 < dzu)%R) in
  let col_ok := (j = xsi + 1 /\ (0 < dxe)%R) \/ (j = xsi /\ (0 < dxw)%R) in
  init_set dz dx vzero zsa xsa zsi xsi i j <->
    (zsi <= i <= zsi + 1 /\ xsi <= j <= xsi + 1) \/
    (row_ok /\ xsi + 2 <= j /\ (ta i (j - 1) < Big)%R) \/
    (row_ok /\ j <= xsi - 1 /\ (ta i (j + 1) < Big)%R) \/
    (col_ok /\ zsi + 2 <= i /\ (ta (i - 1) j < Big)%R) \/
    (col_ok /\ i <= zsi - 1 /\ (ta (i + 1) j < Big)%R).
Proof. reflexivity. Qed.

Theorem fteik2d_init_homogeneous_exact nz nx dz dx grad slow tt ttgrad ttsgn vzero zsa xsa zsi xsi :
  (0 < dz)%R -> (0 < dx)%R -> (0 <= vzero)%R ->
  0 <= zsi < nz - 1 -> 0 <= xsi < nx - 1 ->
  (IZR zsi <= zsa <= IZR zsi + 1)%R -> (IZR xsi <= xsa <= IZR xsi + 1)%R ->
  (forall i j, 0 <= i < nz - 1 -> 0 <= j < nx - 1 -> get 0%R slow [i; j] = vzero) ->
  wf tt -> shape tt = [nz; nx] ->
  (forall i j, 0 <= i < nz -> 0 <= j < nx -> get 0%R tt [i; j] = Big) ->
  let r := fteik2d_p2 dx dz grad 2 nx nz slow tt ttgrad ttsgn vzero xsa xsi zsa zsi in
  forall i j, 0 <= i < nz -> 0 <= j < nx ->
    (init_set dz dx vzero zsa xsa zsi xsi i j \/ ~ init_set dz dx vzero zsa xsa zsi xsi i j) /\
    (init_set dz dx vzero zsa xsa zsi xsi i j ->
       get 0%R (fst (fst r)) [i; j] = t_ana i j dz dx zsa xsa vzero) /\
    (~ init_set dz dx vzero zsa xsa zsi xsi i j -> get 0%R (fst (fst r)) [i; j] = Big).
Proof.
  intros Hdz Hdx Hv Hzsi Hxsi Hzsa Hxsa Hslow W S Hbig r i j Hi Hj.
  pose proof (init_desc nz nx dz dx vzero zsa xsa zsi xsi Hdz Hdx Hv Hzsi Hxsi Hzsa Hxsa
                (Rabs (zsa - IZR zsi)) (1 - Rabs (zsa - IZR zsi))%R (Rabs (xsa - IZR xsi)) (1 - Rabs (xsa - IZR xsi))%R
                slow
                ltac:(rewrite Rabs_pos_eq by lra; reflexivity) ltac:(rewrite Rabs_pos_eq by lra; ring)
                ltac:(rewrite Rabs_pos_eq by lra; reflexivity) ltac:(rewrite Rabs_pos_eq by lra; ring)
                Hslow false grad tt ttgrad ttsgn W S Hbig ltac:(intros E; discriminate E)) as D.
  fold r in D. destruct D as (_ & _ & Dec & Hget & _).
  split; [exact (Dec i j Hi Hj)|]. exact (Hget i j Hi Hj).
Qed.

(* every node is either exact or untouched *)
Corollary fteik2d_init_homogeneous_exact_or_Big nz nx dz dx grad slow tt ttgrad ttsgn vzero zsa xsa zsi xsi :
  (0 < dz)%R -> (0 < dx)%R -> (0 <= vzero)%R ->
  0 <= zsi < nz - 1 -> 0 <= xsi < nx - 1 ->
  (IZR zsi <= zsa <= IZR zsi + 1)%R -> (IZR xsi <= xsa <= IZR xsi + 1)%R ->
  (forall i j, 0 <= i < nz - 1 -> 0 <= j < nx - 1 -> get 0%R slow [i; j] = vzero) ->
  wf tt -> shape tt = [nz; nx] ->
  (forall i j, 0 <= i < nz -> 0 <= j < nx -> get 0%R tt [i; j] = Big) ->
  let r := fteik2d_p2 dx dz grad 2 nx nz slow tt ttgrad ttsgn vzero xsa xsi zsa zsi in
  forall i j, 0 <= i < nz -> 0 <= j < nx ->
    get 0%R (fst (fst r)) [i; j] = t_ana i j dz dx zsa xsa vzero \/ get 0%R (fst (fst r)) [i; j] = Big.
Proof.
  intros Hdz Hdx Hv Hzsi Hxsi Hzsa Hxsa Hslow W S Hbig r i j Hi Hj.
  destruct (fteik2d_init_homogeneous_exact nz nx dz dx grad slow tt ttgrad ttsgn vzero zsa xsa zsi xsi
              Hdz Hdx Hv Hzsi Hxsi Hzsa Hxsa Hslow W S Hbig i j Hi Hj) as ([Y|N] & G1 & G2); [left|right]; auto.
Qed.

(* the sign array (grad = true): every node written by a loop carries the signs of that loop,
   -1 at and below the source's cell index, +1 above *)
Theorem fteik2d_init_homogeneous_signs nz nx dz dx slow tt ttgrad ttsgn vzero zsa xsa zsi xsi :
  (0 < dz)%R -> (0 < dx)%R -> (0 <= vzero)%R ->
  0 <= zsi < nz - 1 -> 0 <= xsi < nx - 1 ->
  (IZR zsi <= zsa <= IZR zsi + 1)%R -> (IZR xsi <= xsa <= IZR xsi + 1)%R ->
  (forall i j, 0 <= i < nz - 1 -> 0 <= j < nx - 1 -> get 0%R slow [i; j] = vzero) ->
  wf tt -> shape tt = [nz; nx] ->
  (forall i j, 0 <= i < nz -> 0 <= j < nx -> get 0%R tt [i; j] = Big) ->
  wf ttsgn -> shape ttsgn = [nz; nx; 2] ->
  let r := fteik2d_p2 dx dz true 2 nx nz slow tt ttgrad ttsgn vzero xsa xsi zsa zsi in
  forall i j, 0 <= i < nz -> 0 <= j < nx ->
    init_set dz dx vzero zsa xsa zsi xsi i j -> ~ (zsi <= i <= zsi + 1 /\ xsi <= j <= xsi + 1) ->
    get 0 (snd r) [i; j; 0] = (if i <=? zsi then -1 else 1) /\
    get 0 (snd r) [i; j; 1] = (if j <=? xsi then -1 else 1).
Proof.
  intros Hdz Hdx Hv Hzsi Hxsi Hzsa Hxsa Hslow W S Hbig Ws Ss r i j Hi Hj Hset Hnc.
  pose proof (init_desc nz nx dz dx vzero zsa xsa zsi xsi Hdz Hdx Hv Hzsi Hxsi Hzsa Hxsa
                (Rabs (zsa - IZR zsi)) (1 - Rabs (zsa - IZR zsi))%R (Rabs (xsa - IZR xsi)) (1 - Rabs (xsa - IZR xsi))%R
                slow
                ltac:(rewrite Rabs_pos_eq by lra; reflexivity) ltac:(rewrite Rabs_pos_eq by lra; ring)
                ltac:(rewrite Rabs_pos_eq by lra; reflexivity) ltac:(rewrite Rabs_pos_eq by lra; ring)
                Hslow true true tt ttgrad ttsgn W S Hbig ltac:(intros _; auto)) as D.
  fold r in D. destruct D as (_ & _ & _ & _ & Hsg). destruct (Hsg eq_refl) as (_ & _ & _ & Hs).
  exact (Hs i j Hi Hj Hset Hnc).
Qed.
