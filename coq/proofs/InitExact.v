(* C01 / C05 for the 2D source-line initialisation `fteik2d_p2` (block `if iflag == 2:` of _fteik/_fteik2d.py), over R.
   Built on the decomposition of proofs/InitSym.v (init_corners, east/west/down/up_phase, blk_x, blk_z) and on the
   operator facts of proofs/OperatorsR.v.

   A. real-number facts: t_ana is monotone along a grid line away from the source (t_ana_mono_x/z), is at least the
      1D time along the line (t_ana_ge_x/z), delta without perturbation returns the analytic time (delta_homog).
   B. homogeneous medium: one block is "if dzw > 0 and tt[prev] < Big then tt[node] := t_ana(node)" (blk_x_eq, blk_z_eq:
      the admissibility guard `tnew >= tt[prev] and tnew >= td[k]` ALWAYS passes), `Desc` describes a state (set of
      exact nodes, the others Big, signs), the four phases extend the set (east/west/down/up_phase_desc), `init_desc`.
   C. C01 (exactness):
        fteik2d_init_homogeneous_exact         every node holds t_ana (nodes of `init_set`) or Big (the others)
        init_set_spelled_out                   which nodes: corners, then along the 2 rows / 2 columns of the source
                                               cell while the previous node is below Big and the line is enabled
        fteik2d_init_homogeneous_exact_or_Big  corollary
        fteik2d_init_homogeneous_signs         grad = true: loop-set nodes carry (-1 | +1, -1 | +1) as in the code
        fteik2d_init_homogeneous_exact_ex, FloatExample.homogeneous_pattern_binary64   non-vacuity
   D. frames: which nodes a block / body / phase may modify (any medium): *_frame.
   E. C05 (unit invariance), for slowness scaling and length scaling at once (`skind`):
        blk_x_sim / blk_z_sim, *_body_sim, *_phase_sim, init_scale
        fteik2d_init_scale_slowness, fteik2d_init_scale_length       caveat: related entries are on the same side of Big
        fteik2d_init_scale_slowness_ge1, fteik2d_init_scale_length_ge1   c >= 1: caveat on the reference run only
        fteik2d_init_scale_slowness_ex, fteik2d_init_scale_length_ex  non-vacuity (c = 2)
*)
From Coq Require Import ZArith List Bool Lia Reals Lra Psatz.
From FT.lib Require Import Num Arr ArrLemmas.
From FT.gen Require Import Common Fteik2d.
From FT.proofs Require Import SafetyTools OperatorsR InitSym.
Import ListNotations.
Open Scope Z_scope.
Open Scope bool_scope.

Ltac numR' := cbn [nadd nsub nmul ndiv nsqrt nabs nneg nltb nleb neqb nofZ nofQ NumR].

(* integer order facts as real order facts *)
Ltac z2r_le a b H :=
  lazymatch goal with _ : (IZR a <= IZR b)%R |- _ => fail | _ => pose proof (IZR_le a b H) end.
Ltac z2r_lt a b H :=
  lazymatch goal with _ : (IZR a < IZR b)%R |- _ => fail | _ => pose proof (IZR_lt a b H) end.
Ltac z2r :=
  repeat match goal with
  | H : (?a <= ?b)%Z |- _ => z2r_le a b H
  | H : (?a < ?b)%Z |- _ => z2r_lt a b H
  | H : (?a <= ?b)%Z /\ _ |- _ => z2r_le a b (proj1 H)
  | H : (?a < ?b)%Z /\ _ |- _ => z2r_lt a b (proj1 H)
  | H : _ /\ (?a <= ?b)%Z |- _ => z2r_le a b (proj2 H)
  | H : _ /\ (?a < ?b)%Z |- _ => z2r_lt a b (proj2 H)
  end;
  rewrite ?plus_IZR, ?minus_IZR in *.
Ltac rabs :=
  repeat match goal with
  | |- context [Rabs ?x] => first [rewrite (Rabs_pos_eq x) by lra | rewrite (Rabs_left1 x) by lra]
  end.

(* ========================================================================================== *)
(* A. real-number facts: the analytic time along a grid line                                    *)
(* ========================================================================================== *)
Section RealFacts.
Open Scope R_scope.
Implicit Types (dz dx zsa xsa v : R) (i j : Z).

Lemma t_ana_nonneg i j dz dx zsa xsa v : 0 <= v -> 0 <= t_ana i j dz dx zsa xsa v.
Proof. intros Hv. rewrite t_ana_exact. apply Rmult_le_pos; [exact Hv | apply sqrt_pos]. Qed.

Lemma sq_le_abs (a b : R) : Rabs a <= Rabs b -> a ^ 2 <= b ^ 2.
Proof. intros H. apply Rsqr_le_abs_1 in H. unfold Rsqr in H. lra. Qed.

(* the Euclidean distance grows along a line when the coordinate along the line moves away from the source *)
Lemma t_ana_mono_x i j j' dz dx zsa xsa v :
  0 <= v -> Rabs (IZR j - xsa) <= Rabs (IZR j' - xsa) ->
  t_ana i j dz dx zsa xsa v <= t_ana i j' dz dx zsa xsa v.
Proof.
  intros Hv H. rewrite !t_ana_exact. apply Rmult_le_compat_l; [exact Hv|]. apply sqrt_le_1_alt.
  apply sq_le_abs in H. pose proof (pow2_ge_0 dx). nra.
Qed.
Lemma t_ana_mono_z i i' j dz dx zsa xsa v :
  0 <= v -> Rabs (IZR i - zsa) <= Rabs (IZR i' - zsa) ->
  t_ana i j dz dx zsa xsa v <= t_ana i' j dz dx zsa xsa v.
Proof. intros Hv H. rewrite (t_ana_swap i), (t_ana_swap i'). apply t_ana_mono_x; assumption. Qed.

(* ... and is at least the distance along the line *)
Lemma t_ana_ge_x i j dz dx zsa xsa v :
  0 <= v -> 0 <= dx -> v * Rabs (IZR j - xsa) * dx <= t_ana i j dz dx zsa xsa v.
Proof.
  intros Hv Hdx. rewrite t_ana_exact, Rmult_assoc. apply Rmult_le_compat_l; [exact Hv|].
  set (a := IZR j - xsa). pose proof (Rabs_pos a) as Ha.
  rewrite <- (sqrt_square (Rabs a * dx)) by (apply Rmult_le_pos; assumption).
  apply sqrt_le_1_alt.
  replace (Rabs a * dx * (Rabs a * dx)) with (dx ^ 2 * Rabs a ^ 2) by ring. rewrite pow2_abs.
  pose proof (pow2_ge_0 (dz * (IZR i - zsa))). nra.
Qed.
Lemma t_ana_ge_z i j dz dx zsa xsa v :
  0 <= v -> 0 <= dz -> v * Rabs (IZR i - zsa) * dz <= t_ana i j dz dx zsa xsa v.
Proof. intros Hv Hdz. rewrite (t_ana_swap i). apply t_ana_ge_x; assumption. Qed.

(* the spherical operator without perturbation returns the analytic time when the stencil looks away from the
   source; any fall-back value t1, any (non-negative) inverse spacings *)
Lemma delta_homog (t1 : R) i j dz dx dzi dxi dz2i dx2i zsa xsa v sgz sgx :
  0 <= dz -> 0 <= dx -> 0 <= dzi -> 0 <= dxi ->
  0 <= IZR sgz * (IZR i - zsa) -> 0 <= IZR sgx * (IZR j - xsa) ->
  delta t1 0 0 0 (fst (fst (t_anad i j dz dx zsa xsa v))) (snd (fst (t_anad i j dz dx zsa xsa v)))
        (snd (t_anad i j dz dx zsa xsa v)) dzi dxi dz2i dx2i v v sgz sgx
  = t_ana i j dz dx zsa xsa v.
Proof.
  intros Hdz Hdx Hdzi Hdxi Hz Hx. rewrite t_anad_exact. cbn [fst snd].
  set (t := t_ana i j dz dx zsa xsa v).
  apply delta_spherical_exact.
  destruct (Rlt_dec 0 t) as [P|N]; [|lra].
  assert (Hv : 0 <= v ^ 2) by apply pow2_ge_0.
  assert (Hit : 0 <= / t) by (left; apply Rinv_0_lt_compat; exact P).
  assert (G : forall q1 q2 q3 q4 q5 : R, 0 <= q1 -> 0 <= q2 -> 0 <= q3 -> 0 <= q4 -> 0 <= q5 -> 0 <= q1 * q2 * q3 * q4 * q5)
    by (intros; repeat apply Rmult_le_pos; assumption).
  set (v2 := v ^ 2) in *. set (pz := IZR sgz * (IZR i - zsa)) in *. set (px := IZR sgx * (IZR j - xsa)) in *.
  apply Rplus_le_le_0_compat.
  - replace (IZR sgx * (v2 * (IZR j - xsa) * dx / t) * dxi) with (v2 * px * dx * / t * dxi)
      by (unfold px, Rdiv; ring).
    apply G; assumption.
  - replace (IZR sgz * (v2 * (IZR i - zsa) * dz / t) * dzi) with (v2 * pz * dz * / t * dzi)
      by (unfold pz, Rdiv; ring).
    apply G; assumption.
Qed.

Lemma inv_spacing_nonneg (w h : R) : 0 < w -> 0 < h -> 0 <= 1 / (w * h).
Proof. intros Hw Hh. unfold Rdiv. rewrite Rmult_1_l. left. apply Rinv_0_lt_compat. nra. Qed.
Lemma Rltb_Big_Big : Rltb (@Big R NumR) Big = false.
Proof. apply Rltb_false. lra. Qed.
End RealFacts.

(* ========================================================================================== *)
(* B. homogeneous medium: one block, one loop body                                              *)
(* ========================================================================================== *)
Section Homog.
Variables (nz nx : Z) (dz dx vzero zsa xsa : R) (zsi xsi : Z).
Hypothesis Hdz : (0 < dz)%R.
Hypothesis Hdx : (0 < dx)%R.
Hypothesis Hv : (0 <= vzero)%R.
Hypothesis Hzsi : 0 <= zsi < nz - 1.
Hypothesis Hxsi : 0 <= xsi < nx - 1.
Hypothesis Hzsa : (IZR zsi <= zsa <= IZR zsi + 1)%R.
Hypothesis Hxsa : (IZR xsi <= xsa <= IZR xsi + 1)%R.
Notation ta i j := (t_ana i j dz dx zsa xsa vzero).

(* the signs the loops record: -1 on the source's own line index and below, +1 above *)
Definition sgn_of (s k : Z) : Z := if k <=? s then -1 else 1.

(* ---------- one block ---------- *)
Lemma blk_x_eq grad (dxi dx2i : R) row (dzw : R) sgz sgx jp j td tt (sg : arr Z) :
  (0 <= dxi)%R ->
  (0 <= IZR sgz * (IZR row - zsa))%R -> (0 <= IZR sgx * (IZR j - xsa))%R ->
  (Rabs (IZR jp - xsa) <= Rabs (IZR j - xsa))%R ->
  get 0%R td [j] = (vzero * Rabs (IZR j - xsa) * dx)%R ->
  (get 0%R tt [row; jp] = ta row jp \/ get 0%R tt [row; jp] = Big) ->
  blk_x dx dz grad vzero xsa zsa dxi dx2i row dzw sgz sgx jp j vzero 0%R 0%R td tt sg =
  let c := Rltb 0 dzw && Rltb (get 0%R tt [row; jp]) Big in
  (if c then set tt [row; j] (ta row j) else tt,
   if c then (if grad then set (set sg [row; j; 0] sgz) [row; j; 1] sgx else sg) else sg).
Proof.
  intros Hdxi Hsz Hsx Hmono Htd Hval. unfold blk_x. cbv zeta. unfold ngtb, ngeb.
  change (@nofZ R NumR 0) with 0%R. numR'.
  destruct (Rltb 0 dzw) eqn:E1; cbn [andb]; [|reflexivity].
  destruct (Rltb (get 0%R tt [row; jp]) Big) eqn:E2; [|reflexivity].
  destruct Hval as [G|G]; [|rewrite G, Rltb_Big_Big in E2; discriminate E2].
  rewrite G. replace (ta row jp - ta row jp)%R with 0%R by ring.
  apply Rltb_true in E1.
  rewrite delta_homog; try lra; [|apply inv_spacing_nonneg; assumption].
  rewrite Htd.
  rewrite (proj2 (Rleb_true (ta row jp) (ta row j))) by (apply t_ana_mono_x; assumption).
  rewrite (proj2 (Rleb_true (vzero * Rabs (IZR j - xsa) * dx) (ta row j))) by (apply t_ana_ge_x; lra).
  cbn [andb fst snd]. reflexivity.
Qed.

Lemma blk_z_eq grad (dzi dz2i : R) col (dxw : R) sgz sgx ip i td tt (sg : arr Z) :
  (0 <= dzi)%R ->
  (0 <= IZR sgz * (IZR i - zsa))%R -> (0 <= IZR sgx * (IZR col - xsa))%R ->
  (Rabs (IZR ip - zsa) <= Rabs (IZR i - zsa))%R ->
  get 0%R td [i] = (vzero * Rabs (IZR i - zsa) * dz)%R ->
  (get 0%R tt [ip; col] = ta ip col \/ get 0%R tt [ip; col] = Big) ->
  blk_z dx dz grad vzero xsa zsa dzi dz2i col dxw sgz sgx ip i vzero 0%R 0%R td tt sg =
  let c := Rltb 0 dxw && Rltb (get 0%R tt [ip; col]) Big in
  (if c then set tt [i; col] (ta i col) else tt,
   if c then (if grad then set (set sg [i; col; 0] sgz) [i; col; 1] sgx else sg) else sg).
Proof.
  intros Hdzi Hsz Hsx Hmono Htd Hval. unfold blk_z. cbv zeta. unfold ngtb, ngeb.
  change (@nofZ R NumR 0) with 0%R. numR'.
  destruct (Rltb 0 dxw) eqn:E1; cbn [andb]; [|reflexivity].
  destruct (Rltb (get 0%R tt [ip; col]) Big) eqn:E2; [|reflexivity].
  destruct Hval as [G|G]; [|rewrite G, Rltb_Big_Big in E2; discriminate E2].
  rewrite G. replace (ta ip col - ta ip col)%R with 0%R by ring.
  apply Rltb_true in E1.
  rewrite delta_homog; try lra; [|apply inv_spacing_nonneg; assumption].
  rewrite Htd.
  rewrite (proj2 (Rleb_true (ta ip col) (ta i col))) by (apply t_ana_mono_z; assumption).
  rewrite (proj2 (Rleb_true (vzero * Rabs (IZR i - zsa) * dz) (ta i col))) by (apply t_ana_ge_z; lra).
  cbn [andb fst snd]. reflexivity.
Qed.

(* ---------- description of a state of the time grid and of the sign array ---------- *)
Definition Corner (i j : Z) : Prop := zsi <= i <= zsi + 1 /\ xsi <= j <= xsi + 1.

(* `P` is the set of nodes that hold the analytic time; all the others still hold `Big`.  Sign array (when
   `grad`): the nodes of `P` outside the source cell carry the signs of the loop that wrote them. *)
Definition Desc (trk grad : bool) (P : Z -> Z -> Prop) (tt : arr R) (sg : arr Z) : Prop :=
  wf tt /\ shape tt = [nz; nx] /\
  (forall i j, 0 <= i < nz -> 0 <= j < nx -> P i j \/ ~ P i j) /\
  (forall i j, 0 <= i < nz -> 0 <= j < nx ->
     (P i j -> get 0%R tt [i; j] = ta i j) /\ (~ P i j -> get 0%R tt [i; j] = Big)) /\
  (trk = true -> grad = true /\ wf sg /\ shape sg = [nz; nx; 2] /\
     forall i j, 0 <= i < nz -> 0 <= j < nx -> P i j -> ~ Corner i j ->
       get 0 sg [i; j; 0] = sgn_of zsi i /\ get 0 sg [i; j; 1] = sgn_of xsi j).

Lemma Desc_ext trk grad P Q tt sg :
  Desc trk grad P tt sg -> (forall i j, 0 <= i < nz -> 0 <= j < nx -> (P i j <-> Q i j)) -> Desc trk grad Q tt sg.
Proof.
  intros (W & S & Dec & Hget & Hsg) E.
  split; [exact W|]. split; [exact S|]. split; [|split].
  - intros i j Hi Hj. destruct (Dec i j Hi Hj); [left|right]; rewrite <- (E i j Hi Hj); assumption.
  - intros i j Hi Hj. destruct (Hget i j Hi Hj) as [G1 G2]. rewrite <- (E i j Hi Hj). split; assumption.
  - intros Hg. destruct (Hsg Hg) as (Eg & Ws & Ss & Hs). split; [exact Eg|]. split; [exact Ws|]. split; [exact Ss|].
    intros i j Hi Hj HQ. apply Hs; auto. apply (E i j Hi Hj), HQ.
Qed.

Lemma Desc_val trk grad P tt sg i j :
  Desc trk grad P tt sg -> 0 <= i < nz -> 0 <= j < nx -> get 0%R tt [i; j] = ta i j \/ get 0%R tt [i; j] = Big.
Proof.
  intros (_ & _ & Dec & Hget & _) Hi Hj. destruct (Hget i j Hi Hj) as [G1 G2].
  destruct (Dec i j Hi Hj); [left|right]; auto.
Qed.

(* the condition of a block in terms of the description *)
Lemma Desc_cond trk grad P tt sg i j (d : R) :
  Desc trk grad P tt sg -> 0 <= i < nz -> 0 <= j < nx ->
  (Rltb 0 d && Rltb (get 0%R tt [i; j]) Big = true <-> (0 < d)%R /\ P i j /\ (ta i j < Big)%R).
Proof.
  intros (_ & _ & Dec & Hget & _) Hi Hj. destruct (Hget i j Hi Hj) as [G1 G2].
  rewrite andb_true_iff, !Rltb_true. destruct (Dec i j Hi Hj) as [Y|N].
  - rewrite (G1 Y). tauto.
  - rewrite (G2 N). split; [intros [_ C]; lra | tauto].
Qed.

Lemma idx2_neq (i j a b : Z) : [i; j] <> [a; b] -> ~ (a = i /\ b = j).
Proof. intros N [-> ->]. apply N. reflexivity. Qed.

(* the effect of one block on the description *)
Lemma Desc_update trk grad P tt sg i j (c : bool) (Q : Prop) sgz sgx :
  Desc trk grad P tt sg -> 0 <= i < nz -> 0 <= j < nx -> (c = true <-> Q) ->
  sgz = sgn_of zsi i -> sgx = sgn_of xsi j ->
  Desc trk grad (fun a b => P a b \/ (a = i /\ b = j /\ Q))
    (if c then set tt [i; j] (ta i j) else tt)
    (if c then (if grad then set (set sg [i; j; 0] sgz) [i; j; 1] sgx else sg) else sg).
Proof.
  intros D Hi Hj HcQ -> ->. destruct c.
  - assert (HQ : Q) by (apply HcQ; reflexivity). destruct D as (W & S & Dec & Hget & Hsg).
    assert (I0 : inb tt [i; j] = true) by (eapply inb2_true; eauto).
    split; [apply wf_set, W|]. split; [exact S|]. split; [|split].
    + intros a b Ha Hb. destruct (Dec a b Ha Hb) as [Y|N]; [left; left; exact Y|].
      destruct (Z.eq_dec a i) as [->|Na]; [destruct (Z.eq_dec b j) as [->|Nb]|].
      * left. right. auto.
      * right. intros [Y|(_ & E & _)]; [exact (N Y) | exact (Nb E)].
      * right. intros [Y|(E & _)]; [exact (N Y) | exact (Na E)].
    + intros a b Ha Hb. destruct (list_eq_dec_Z [i; j] [a; b]) as [E|N].
      * injection E as <- <-. rewrite get_set_same by assumption. split; [reflexivity|].
        intros Hn. exfalso. apply Hn. right. auto.
      * rewrite get_set_other; [| exact I0 | eapply inb2_true; eauto | exact N].
        destruct (Hget a b Ha Hb) as [G1 G2]. apply idx2_neq in N. split.
        -- intros [Y|(Ea & Eb & _)]; [exact (G1 Y) | exfalso; apply N; auto].
        -- intros Hn. apply G2. intros Y. apply Hn. left. exact Y.
    + intros Hg. destruct (Hsg Hg) as (Eg & Ws & Ss & Hs). rewrite Eg. split; [reflexivity|].
      assert (J0 : inb sg [i; j; 0] = true) by (eapply inb3_true; eauto; lia).
      assert (J1 : inb sg [i; j; 1] = true) by (eapply inb3_true; eauto; lia).
      split; [apply wf_set, wf_set, Ws|]. split; [exact Ss|].
      intros a b Ha Hb HP Hnc.
      destruct (list_eq_dec_Z [i; j] [a; b]) as [E|N].
      * injection E as <- <-. split.
        -- rewrite get_set_other; [| rewrite inb_set; exact J1 | rewrite inb_set; exact J0 | intros E; discriminate E].
           apply get_set_same; assumption.
        -- apply get_set_same; [apply wf_set, Ws | rewrite inb_set; exact J1].
      * assert (K0 : inb sg [a; b; 0] = true) by (eapply inb3_true; eauto; lia).
        assert (K1 : inb sg [a; b; 1] = true) by (eapply inb3_true; eauto; lia).
        assert (HPab : P a b).
        { destruct HP as [Y|(Ea & Eb & _)]; [exact Y|]. exfalso. apply N. subst. reflexivity. }
        assert (M : forall k k', [i; j; k] <> [a; b; k']).
        { intros k k' E. apply N. injection E as -> -> _. reflexivity. }
        rewrite !get_set_other; rewrite ?inb_set; auto.
  - assert (HQ : ~ Q) by (intros q; apply HcQ in q; discriminate q).
    apply (Desc_ext trk grad P); [exact D|]. intros a b _ _. tauto.
Qed.

(* ---------- the sets written by the four loops ---------- *)
Variables (dzu dzd dxw dxe : R) (slow : arr R).
Hypothesis Hdzu : dzu = (zsa - IZR zsi)%R.
Hypothesis Hdzd : dzd = (IZR zsi + 1 - zsa)%R.
Hypothesis Hdxw : dxw = (xsa - IZR xsi)%R.
Hypothesis Hdxe : dxe = (IZR xsi + 1 - xsa)%R.
Hypothesis Hslow : forall i j, 0 <= i < nz - 1 -> 0 <= j < nx - 1 -> get 0%R slow [i; j] = vzero.

(* lines on which the x-loops (resp. z-loops) work: the far line of the source cell only if the source is not on
   the near one *)
Definition RowOK (i : Z) : Prop := (i = zsi + 1 /\ (0 < dzd)%R) \/ (i = zsi /\ (0 < dzu)%R).
Definition ColOK (j : Z) : Prop := (j = xsi + 1 /\ (0 < dxe)%R) \/ (j = xsi /\ (0 < dxw)%R).
Definition EastSet (i j : Z) : Prop := RowOK i /\ xsi + 2 <= j /\ (ta i (j - 1) < Big)%R.
Definition WestSet (i j : Z) : Prop := RowOK i /\ j <= xsi - 1 /\ (ta i (j + 1) < Big)%R.
Definition DownSet (i j : Z) : Prop := ColOK j /\ zsi + 2 <= i /\ (ta (i - 1) j < Big)%R.
Definition UpSet (i j : Z) : Prop := ColOK j /\ i <= zsi - 1 /\ (ta (i + 1) j < Big)%R.

(* ---------- east ---------- *)
Definition InvE trk grad M (P0 : Z -> Z -> Prop) (k : Z) (st : arr R * arr R * arr Z) : Prop :=
  wf (fst (fst st)) /\ shape (fst (fst st)) = [M] /\
  get 0%R (fst (fst st)) [k - 1] = (vzero * (IZR (k - 1) - xsa) * dx)%R /\
  Desc trk grad (fun a b => P0 a b \/ (EastSet a b /\ b < k)) (snd (fst st)) (snd st).

Lemma east_step trk grad M (P0 : Z -> Z -> Prop) k st :
  nx <= M -> xsi + 2 <= k < nx -> P0 (zsi + 1) (xsi + 1) -> P0 zsi (xsi + 1) ->
  InvE trk grad M P0 k st ->
  InvE trk grad M P0 (k + 1) (east_body dx dz grad slow vzero xsa zsa zsi dzu dzd (1 / dx)%R (1 / dx / dx)%R k st).
Proof.
  intros HM Hk A1 A2. destruct st as [[td tt] sg]. unfold InvE. cbn [fst snd]. intros (W & S & Htd & D).
  cbv beta zeta delta [east_body]. cbn [fst snd].
  change (@nofZ R NumR 0) with 0%R.
  rewrite (Hslow zsi (k - 1)) by lia.
  set (v := nadd (get 0%R td [k - 1]) (nmul dx vzero)).
  rewrite (get1_set_same td M k v W S ltac:(lia)).
  rewrite (get1_set_other td M k (k - 1) v S ltac:(lia) ltac:(lia) ltac:(lia)).
  assert (Kx : (IZR xsi + 2 <= IZR k)%R) by (z2r; lra).
  assert (Ev : v = (vzero * Rabs (IZR k - xsa) * dx)%R).
  { unfold v. numR'. rewrite Htd, minus_IZR. rabs. ring. }
  assert (T1 : nsub v (nmul (nmul vzero (nabs (nsub (nofZ k) xsa))) dx) = 0%R) by (rewrite Ev; numR'; ring).
  assert (T2 : nsub (get 0%R td [k - 1]) (nmul (nmul vzero (nabs (nsub (nsub (nofZ k) xsa) (nofZ 1)))) dx) = 0%R).
  { rewrite Htd, minus_IZR. numR'. rabs. ring. }
  rewrite T1, T2.
  set (tdn := set td [k] v).
  assert (Htdn : get 0%R tdn [k] = (vzero * Rabs (IZR k - xsa) * dx)%R).
  { unfold tdn. rewrite (get1_set_same td M k v W S ltac:(lia)). exact Ev. }
  assert (Hdxi : (0 <= 1 / dx)%R) by (unfold Rdiv; rewrite Rmult_1_l; left; apply Rinv_0_lt_compat; exact Hdx).
  assert (Hmono : (Rabs (IZR (k - 1) - xsa) <= Rabs (IZR k - xsa))%R) by (rewrite minus_IZR; rabs; lra).
  assert (Hsx : (0 <= IZR 1 * (IZR k - xsa))%R) by lra.
  (* first block: line zsi + 1 *)
  rewrite (blk_x_eq grad (1 / dx)%R (1 / dx / dx)%R (zsi + 1) dzd 1 1 (k - 1) k tdn tt sg Hdxi
             ltac:(rewrite plus_IZR; lra) Hsx Hmono Htdn (Desc_val trk grad _ tt sg (zsi + 1) (k - 1) D ltac:(lia) ltac:(lia))).
  cbv zeta. cbn [fst snd].
  pose proof (Desc_update trk grad _ tt sg (zsi + 1) k _ _ 1 1 D ltac:(lia) ltac:(lia)
                (Desc_cond trk grad _ tt sg (zsi + 1) (k - 1) dzd D ltac:(lia) ltac:(lia))
                ltac:(unfold sgn_of; destruct (Z.leb_spec (zsi + 1) zsi); lia)
                ltac:(unfold sgn_of; destruct (Z.leb_spec k xsi); lia)) as D1.
  match type of D1 with Desc _ _ _ ?t1 ?s1 => set (tt1 := t1) in *; set (sg1 := s1) in * end.
  (* second block: line zsi *)
  rewrite (blk_x_eq grad (1 / dx)%R (1 / dx / dx)%R zsi dzu (-1) 1 (k - 1) k tdn tt1 sg1 Hdxi
             ltac:(lra) Hsx Hmono Htdn (Desc_val trk grad _ tt1 sg1 zsi (k - 1) D1 ltac:(lia) ltac:(lia))).
  cbv zeta. cbn [fst snd].
  pose proof (Desc_update trk grad _ tt1 sg1 zsi k _ _ (-1) 1 D1 ltac:(lia) ltac:(lia)
                (Desc_cond trk grad _ tt1 sg1 zsi (k - 1) dzu D1 ltac:(lia) ltac:(lia))
                ltac:(unfold sgn_of; destruct (Z.leb_spec zsi zsi); lia)
                ltac:(unfold sgn_of; destruct (Z.leb_spec k xsi); lia)) as D2.
  split; [apply wf_set, W|]. split; [exact S|]. split.
  - replace (k + 1 - 1) with k by lia. fold tdn. rewrite Htdn. rabs. reflexivity.
  - eapply Desc_ext; [exact D2|]. clear D D1 D2 tt1 sg1.
    intros a b Ha Hb. cbv beta.
    (* the analytic time one node closer to the source is smaller *)
    assert (Mo : forall r, (ta r (k - 1) < Big)%R -> xsi + 2 <= k - 1 -> (ta r (k - 1 - 1) < Big)%R).
    { intros r Hr Hq. eapply Rle_lt_trans; [|exact Hr]. apply t_ana_mono_x; [exact Hv|].
      assert (IZR xsi + 2 <= IZR (k - 1))%R by (apply IZR_le in Hq; rewrite plus_IZR in Hq; exact Hq).
      rewrite (minus_IZR (k - 1) 1). rabs. lra. }
    assert (Reach : forall r, P0 r (xsi + 1) -> RowOK r -> (ta r (k - 1) < Big)%R ->
                      P0 r (k - 1) \/ (EastSet r (k - 1) /\ k - 1 < k)).
    { intros r Hc Hr Ht. destruct (Z.eq_dec (k - 1) (xsi + 1)) as [E|N]; [left; rewrite E; exact Hc|].
      right. split; [|lia]. split; [exact Hr|]. split; [lia|]. apply Mo; [exact Ht | lia]. }
    split.
    + intros [[Y|(-> & -> & Q1 & _ & Q3)]|(-> & -> & Q1 & _ & Q3)].
      * destruct Y as [Y|[Y Y']]; [left; exact Y | right; split; [exact Y | lia]].
      * right. split; [|lia]. split; [left; auto|]. split; [lia | exact Q3].
      * right. split; [|lia]. split; [right; auto|]. split; [lia | exact Q3].
    + intros [Y|[(Hr & Hj & Ht) Hlt]]; [left; left; left; exact Y|].
      destruct (Z.eq_dec b k) as [->|Nb]; [|left; left; right; split; [split; auto | lia]].
      destruct Hr as [[-> Hd]|[-> Hd]].
      * left. right. repeat (split; auto). apply Reach; auto. left; auto.
      * right. repeat (split; auto). left. apply Reach; auto. right; auto.
Qed.

(* a loop over the image of an ascending range, with an invariant that depends on the position *)
Lemma for_list_pos {St} (I : Z -> St -> Prop) (b : Z -> St -> St) (f : Z -> Z) n :
  forall a s, I a s ->
    (forall p x, a <= p < a + Z.of_nat n -> I p x -> I (p + 1) (b (f p) x)) ->
    I (a + Z.of_nat n) (for_list (map f (upto a n)) b s).
Proof.
  induction n as [|n IH]; intros a s H0 Hs.
  - cbn. replace (a + 0) with a by lia. exact H0.
  - rewrite upto_S. cbn [map]. rewrite for_list_cons.
    replace (a + Z.of_nat (S n)) with ((a + 1) + Z.of_nat n) by lia.
    apply IH; [apply Hs; [lia | exact H0] | intros p x Hp; apply Hs; lia].
Qed.

Lemma east_phase_desc trk grad M (P0 : Z -> Z -> Prop) td tt sg :
  wf td -> shape td = [M] -> nx <= M -> P0 (zsi + 1) (xsi + 1) -> P0 zsi (xsi + 1) ->
  Desc trk grad P0 tt sg ->
  let r := east_phase dx dz grad nx slow vzero xsa xsi zsa zsi dzu dzd dxe (td, tt, sg) in
  wf (fst (fst r)) /\ shape (fst (fst r)) = [M] /\
  Desc trk grad (fun a b => P0 a b \/ EastSet a b) (snd (fst r)) (snd r).
Proof.
  intros W S HM A1 A2 D r. subst r. unfold east_phase. cbv zeta. cbn [fst snd].
  rewrite pyrange_up. set (n := Z.to_nat (nx - (xsi + 2))).
  match goal with |- context [for_list _ ?b ?s] =>
    pose proof (for_list_pos (InvE trk grad M P0) b (fun x => x) n (xsi + 2) s) as L end.
  rewrite map_id in L. replace (xsi + 2 + Z.of_nat n) with nx in L by lia.
  destruct L as (W' & S' & _ & D').
  - unfold InvE. cbn [fst snd]. split; [apply wf_set, W|]. split; [exact S|]. split.
    + replace (xsi + 2 - 1) with (xsi + 1) by lia.
      rewrite (get1_set_same td M (xsi + 1) _ W S ltac:(lia)). numR'. rewrite Hdxe, plus_IZR. ring.
    + eapply Desc_ext; [exact D|]. intros a b _ _. split; [tauto|].
      intros [Y|[(_ & Y & _) Y']]; [exact Y | lia].
  - intros p x Hp Hx. apply east_step; auto; lia.
  - split; [exact W'|]. split; [exact S'|]. eapply Desc_ext; [exact D'|].
    intros a b _ Hb. cbv beta. split; [tauto|]. intros [Y|Y]; [left; exact Y | right; split; [exact Y | lia]].
Qed.

(* ---------- west ---------- *)
Definition InvW trk grad M (P0 : Z -> Z -> Prop) (k : Z) (st : arr R * arr R * arr Z) : Prop :=
  wf (fst (fst st)) /\ shape (fst (fst st)) = [M] /\
  get 0%R (fst (fst st)) [k + 1] = (vzero * (xsa - IZR (k + 1)) * dx)%R /\
  Desc trk grad (fun a b => P0 a b \/ (WestSet a b /\ k < b)) (snd (fst st)) (snd st).

Lemma west_step trk grad M (P0 : Z -> Z -> Prop) k st :
  nx <= M -> 0 <= k <= xsi - 1 -> P0 (zsi + 1) xsi -> P0 zsi xsi ->
  InvW trk grad M P0 k st ->
  InvW trk grad M P0 (k - 1) (west_body dx dz grad slow vzero xsa zsa zsi dzu dzd (1 / dx)%R (1 / dx / dx)%R k st).
Proof.
  intros HM Hk A1 A2. destruct st as [[td tt] sg]. unfold InvW. cbn [fst snd]. intros (W & S & Htd & D).
  cbv beta zeta delta [west_body]. cbn [fst snd].
  change (@nofZ R NumR 0) with 0%R.
  rewrite (Hslow zsi k) by lia.
  set (v := nadd (get 0%R td [k + 1]) (nmul dx vzero)).
  rewrite (get1_set_same td M k v W S ltac:(lia)).
  rewrite (get1_set_other td M k (k + 1) v S ltac:(lia) ltac:(lia) ltac:(lia)).
  assert (Kx : (IZR k + 1 <= IZR xsi)%R) by (z2r; lra).
  assert (Ev : v = (vzero * Rabs (IZR k - xsa) * dx)%R).
  { unfold v. numR'. rewrite Htd, plus_IZR. rabs. ring. }
  assert (T1 : nsub v (nmul (nmul vzero (nabs (nsub (nofZ k) xsa))) dx) = 0%R) by (rewrite Ev; numR'; ring).
  assert (T2 : nsub (get 0%R td [k + 1]) (nmul (nmul vzero (nabs (nadd (nsub (nofZ k) xsa) (nofZ 1)))) dx) = 0%R).
  { rewrite Htd, plus_IZR. numR'. rabs. ring. }
  rewrite T1, T2.
  set (tdn := set td [k] v).
  assert (Htdn : get 0%R tdn [k] = (vzero * Rabs (IZR k - xsa) * dx)%R).
  { unfold tdn. rewrite (get1_set_same td M k v W S ltac:(lia)). exact Ev. }
  assert (Hdxi : (0 <= 1 / dx)%R) by (unfold Rdiv; rewrite Rmult_1_l; left; apply Rinv_0_lt_compat; exact Hdx).
  assert (Hmono : (Rabs (IZR (k + 1) - xsa) <= Rabs (IZR k - xsa))%R) by (rewrite plus_IZR; rabs; lra).
  assert (Hsx : (0 <= IZR (-1) * (IZR k - xsa))%R) by lra.
  (* first block: line zsi + 1 *)
  rewrite (blk_x_eq grad (1 / dx)%R (1 / dx / dx)%R (zsi + 1) dzd 1 (-1) (k + 1) k tdn tt sg Hdxi
             ltac:(rewrite plus_IZR; lra) Hsx Hmono Htdn (Desc_val trk grad _ tt sg (zsi + 1) (k + 1) D ltac:(lia) ltac:(lia))).
  cbv zeta. cbn [fst snd].
  pose proof (Desc_update trk grad _ tt sg (zsi + 1) k _ _ 1 (-1) D ltac:(lia) ltac:(lia)
                (Desc_cond trk grad _ tt sg (zsi + 1) (k + 1) dzd D ltac:(lia) ltac:(lia))
                ltac:(unfold sgn_of; destruct (Z.leb_spec (zsi + 1) zsi); lia)
                ltac:(unfold sgn_of; destruct (Z.leb_spec k xsi); lia)) as D1.
  match type of D1 with Desc _ _ _ ?t1 ?s1 => set (tt1 := t1) in *; set (sg1 := s1) in * end.
  (* second block: line zsi *)
  rewrite (blk_x_eq grad (1 / dx)%R (1 / dx / dx)%R zsi dzu (-1) (-1) (k + 1) k tdn tt1 sg1 Hdxi
             ltac:(lra) Hsx Hmono Htdn (Desc_val trk grad _ tt1 sg1 zsi (k + 1) D1 ltac:(lia) ltac:(lia))).
  cbv zeta. cbn [fst snd].
  pose proof (Desc_update trk grad _ tt1 sg1 zsi k _ _ (-1) (-1) D1 ltac:(lia) ltac:(lia)
                (Desc_cond trk grad _ tt1 sg1 zsi (k + 1) dzu D1 ltac:(lia) ltac:(lia))
                ltac:(unfold sgn_of; destruct (Z.leb_spec zsi zsi); lia)
                ltac:(unfold sgn_of; destruct (Z.leb_spec k xsi); lia)) as D2.
  split; [apply wf_set, W|]. split; [exact S|]. split.
  - replace (k - 1 + 1) with k by lia. fold tdn. rewrite Htdn. rabs. ring.
  - eapply Desc_ext; [exact D2|]. clear D D1 D2 tt1 sg1.
    intros a b Ha Hb. cbv beta.
    assert (Mo : forall r, (ta r (k + 1) < Big)%R -> k + 1 <= xsi - 1 -> (ta r (k + 1 + 1) < Big)%R).
    { intros r Hr Hq. eapply Rle_lt_trans; [|exact Hr]. apply t_ana_mono_x; [exact Hv|].
      assert (IZR (k + 1) <= IZR xsi - 1)%R by (apply IZR_le in Hq; rewrite minus_IZR in Hq; exact Hq).
      rewrite (plus_IZR (k + 1) 1). rabs. lra. }
    assert (Reach : forall r, P0 r xsi -> RowOK r -> (ta r (k + 1) < Big)%R ->
                      P0 r (k + 1) \/ (WestSet r (k + 1) /\ k < k + 1)).
    { intros r Hc Hr Ht. destruct (Z.eq_dec (k + 1) xsi) as [E|N]; [left; rewrite E; exact Hc|].
      right. split; [|lia]. split; [exact Hr|]. split; [lia|]. apply Mo; [exact Ht | lia]. }
    split.
    + intros [[Y|(-> & -> & Q1 & _ & Q3)]|(-> & -> & Q1 & _ & Q3)].
      * destruct Y as [Y|[Y Y']]; [left; exact Y | right; split; [exact Y | lia]].
      * right. split; [|lia]. split; [left; auto|]. split; [lia | exact Q3].
      * right. split; [|lia]. split; [right; auto|]. split; [lia | exact Q3].
    + intros [Y|[(Hr & Hj & Ht) Hlt]]; [left; left; left; exact Y|].
      destruct (Z.eq_dec b k) as [->|Nb]; [|left; left; right; split; [split; auto | lia]].
      destruct Hr as [[-> Hd]|[-> Hd]].
      * left. right. repeat (split; auto). apply Reach; auto. left; auto.
      * right. repeat (split; auto). left. apply Reach; auto. right; auto.
Qed.

Lemma west_phase_desc trk grad M (P0 : Z -> Z -> Prop) td tt sg :
  wf td -> shape td = [M] -> nx <= M -> P0 (zsi + 1) xsi -> P0 zsi xsi ->
  Desc trk grad P0 tt sg ->
  let r := west_phase dx dz grad slow vzero xsa xsi zsa zsi dzu dzd dxw (td, tt, sg) in
  wf (fst (fst r)) /\ shape (fst (fst r)) = [M] /\
  Desc trk grad (fun a b => P0 a b \/ WestSet a b) (snd (fst r)) (snd r).
Proof.
  intros W S HM A1 A2 D r. subst r. unfold west_phase. cbv zeta. cbn [fst snd].
  rewrite (pyrange_down (xsi - 1) (xsi - 1)). replace (xsi - 1 - (xsi - 1)) with 0 by lia.
  set (n := Z.to_nat (xsi - 1 + 1)).
  match goal with |- context [for_list _ ?b ?s] =>
    pose proof (for_list_pos (fun q => InvW trk grad M P0 (xsi - 1 - q)) b (fun i => xsi - 1 - i) n 0 s) as L end.
  cbv beta in L. replace (xsi - 1 - (0 + Z.of_nat n)) with (-1) in L by lia.
  destruct L as (W' & S' & _ & D').
  - unfold InvW. cbn [fst snd]. split; [apply wf_set, W|]. split; [exact S|]. split.
    + replace (xsi - 1 - 0 + 1) with xsi by lia.
      rewrite (get1_set_same td M xsi _ W S ltac:(lia)). numR'. rewrite Hdxw. ring.
    + eapply Desc_ext; [exact D|]. intros a b _ _. split; [tauto|].
      intros [Y|[(_ & Y & _) Y']]; [exact Y | lia].
  - intros p x Hp Hx. replace (xsi - 1 - (p + 1)) with (xsi - 1 - p - 1) by lia. apply west_step; auto; lia.
  - split; [exact W'|]. split; [exact S'|]. eapply Desc_ext; [exact D'|].
    intros a b _ Hb. cbv beta. split; [tauto|]. intros [Y|Y]; [left; exact Y | right; split; [exact Y | lia]].
Qed.

(* ---------- down ---------- *)
Definition InvD trk grad M (P0 : Z -> Z -> Prop) (k : Z) (st : arr R * arr R * arr Z) : Prop :=
  wf (fst (fst st)) /\ shape (fst (fst st)) = [M] /\
  get 0%R (fst (fst st)) [k - 1] = (vzero * (IZR (k - 1) - zsa) * dz)%R /\
  Desc trk grad (fun a b => P0 a b \/ (DownSet a b /\ a < k)) (snd (fst st)) (snd st).

Lemma down_step trk grad M (P0 : Z -> Z -> Prop) k st :
  nz <= M -> zsi + 2 <= k < nz -> P0 (zsi + 1) (xsi + 1) -> P0 (zsi + 1) xsi ->
  InvD trk grad M P0 k st ->
  InvD trk grad M P0 (k + 1) (down_body dx dz grad slow vzero xsa zsa xsi dxw dxe (1 / dz)%R (1 / dz / dz)%R k st).
Proof.
  intros HM Hk A1 A2. destruct st as [[td tt] sg]. unfold InvD. cbn [fst snd]. intros (W & S & Htd & D).
  cbv beta zeta delta [down_body]. cbn [fst snd].
  change (@nofZ R NumR 0) with 0%R.
  rewrite (Hslow (k - 1) xsi) by lia.
  set (v := nadd (get 0%R td [k - 1]) (nmul dz vzero)).
  rewrite (get1_set_same td M k v W S ltac:(lia)).
  rewrite (get1_set_other td M k (k - 1) v S ltac:(lia) ltac:(lia) ltac:(lia)).
  assert (Kx : (IZR zsi + 2 <= IZR k)%R) by (z2r; lra).
  assert (Ev : v = (vzero * Rabs (IZR k - zsa) * dz)%R).
  { unfold v. numR'. rewrite Htd, minus_IZR. rabs. ring. }
  assert (T1 : nsub v (nmul (nmul vzero (nabs (nsub (nofZ k) zsa))) dz) = 0%R) by (rewrite Ev; numR'; ring).
  assert (T2 : nsub (get 0%R td [k - 1]) (nmul (nmul vzero (nabs (nsub (nsub (nofZ k) zsa) (nofZ 1)))) dz) = 0%R).
  { rewrite Htd, minus_IZR. numR'. rabs. ring. }
  rewrite T1, T2.
  set (tdn := set td [k] v).
  assert (Htdn : get 0%R tdn [k] = (vzero * Rabs (IZR k - zsa) * dz)%R).
  { unfold tdn. rewrite (get1_set_same td M k v W S ltac:(lia)). exact Ev. }
  assert (Hdzi : (0 <= 1 / dz)%R) by (unfold Rdiv; rewrite Rmult_1_l; left; apply Rinv_0_lt_compat; exact Hdz).
  assert (Hmono : (Rabs (IZR (k - 1) - zsa) <= Rabs (IZR k - zsa))%R) by (rewrite minus_IZR; rabs; lra).
  assert (Hsz : (0 <= IZR 1 * (IZR k - zsa))%R) by lra.
  (* first block: line xsi + 1 *)
  rewrite (blk_z_eq grad (1 / dz)%R (1 / dz / dz)%R (xsi + 1) dxe 1 1 (k - 1) k tdn tt sg Hdzi
             Hsz ltac:(rewrite plus_IZR; lra) Hmono Htdn (Desc_val trk grad _ tt sg (k - 1) (xsi + 1) D ltac:(lia) ltac:(lia))).
  cbv zeta. cbn [fst snd].
  pose proof (Desc_update trk grad _ tt sg k (xsi + 1) _ _ 1 1 D ltac:(lia) ltac:(lia)
                (Desc_cond trk grad _ tt sg (k - 1) (xsi + 1) dxe D ltac:(lia) ltac:(lia))
                ltac:(unfold sgn_of; destruct (Z.leb_spec k zsi); lia)
                ltac:(unfold sgn_of; destruct (Z.leb_spec (xsi + 1) xsi); lia)) as D1.
  match type of D1 with Desc _ _ _ ?t1 ?s1 => set (tt1 := t1) in *; set (sg1 := s1) in * end.
  (* second block: line xsi *)
  rewrite (blk_z_eq grad (1 / dz)%R (1 / dz / dz)%R xsi dxw 1 (-1) (k - 1) k tdn tt1 sg1 Hdzi
             Hsz ltac:(lra) Hmono Htdn (Desc_val trk grad _ tt1 sg1 (k - 1) xsi D1 ltac:(lia) ltac:(lia))).
  cbv zeta. cbn [fst snd].
  pose proof (Desc_update trk grad _ tt1 sg1 k xsi _ _ 1 (-1) D1 ltac:(lia) ltac:(lia)
                (Desc_cond trk grad _ tt1 sg1 (k - 1) xsi dxw D1 ltac:(lia) ltac:(lia))
                ltac:(unfold sgn_of; destruct (Z.leb_spec k zsi); lia)
                ltac:(unfold sgn_of; destruct (Z.leb_spec xsi xsi); lia)) as D2.
  split; [apply wf_set, W|]. split; [exact S|]. split.
  - replace (k + 1 - 1) with k by lia. fold tdn. rewrite Htdn. rabs. reflexivity.
  - eapply Desc_ext; [exact D2|]. clear D D1 D2 tt1 sg1.
    intros a b Ha Hb. cbv beta.
    assert (Mo : forall c, (ta (k - 1) c < Big)%R -> zsi + 2 <= k - 1 -> (ta (k - 1 - 1) c < Big)%R).
    { intros c Hr Hq. eapply Rle_lt_trans; [|exact Hr]. apply t_ana_mono_z; [exact Hv|].
      assert (IZR zsi + 2 <= IZR (k - 1))%R by (apply IZR_le in Hq; rewrite plus_IZR in Hq; exact Hq).
      rewrite (minus_IZR (k - 1) 1). rabs. lra. }
    assert (Reach : forall c, P0 (zsi + 1) c -> ColOK c -> (ta (k - 1) c < Big)%R ->
                      P0 (k - 1) c \/ (DownSet (k - 1) c /\ k - 1 < k)).
    { intros c Hc Hr Ht. destruct (Z.eq_dec (k - 1) (zsi + 1)) as [E|N]; [left; rewrite E; exact Hc|].
      right. split; [|lia]. split; [exact Hr|]. split; [lia|]. apply Mo; [exact Ht | lia]. }
    split.
    + intros [[Y|(-> & -> & Q1 & _ & Q3)]|(-> & -> & Q1 & _ & Q3)].
      * destruct Y as [Y|[Y Y']]; [left; exact Y | right; split; [exact Y | lia]].
      * right. split; [|lia]. split; [left; auto|]. split; [lia | exact Q3].
      * right. split; [|lia]. split; [right; auto|]. split; [lia | exact Q3].
    + intros [Y|[(Hr & Hj & Ht) Hlt]]; [left; left; left; exact Y|].
      destruct (Z.eq_dec a k) as [->|Nb]; [|left; left; right; split; [split; auto | lia]].
      destruct Hr as [[-> Hd]|[-> Hd]].
      * left. right. repeat (split; auto). apply Reach; auto. left; auto.
      * right. repeat (split; auto). left. apply Reach; auto. right; auto.
Qed.

Lemma down_phase_desc trk grad M (P0 : Z -> Z -> Prop) td tt sg :
  wf td -> shape td = [M] -> nz <= M -> P0 (zsi + 1) (xsi + 1) -> P0 (zsi + 1) xsi ->
  Desc trk grad P0 tt sg ->
  let r := down_phase dx dz grad nz slow vzero xsa xsi zsa zsi dxw dxe dzd (td, tt, sg) in
  wf (fst (fst r)) /\ shape (fst (fst r)) = [M] /\
  Desc trk grad (fun a b => P0 a b \/ DownSet a b) (snd (fst r)) (snd r).
Proof.
  intros W S HM A1 A2 D r. subst r. unfold down_phase. cbv zeta. cbn [fst snd].
  rewrite pyrange_up. set (n := Z.to_nat (nz - (zsi + 2))).
  match goal with |- context [for_list _ ?b ?s] =>
    pose proof (for_list_pos (InvD trk grad M P0) b (fun x => x) n (zsi + 2) s) as L end.
  rewrite map_id in L. replace (zsi + 2 + Z.of_nat n) with nz in L by lia.
  destruct L as (W' & S' & _ & D').
  - unfold InvD. cbn [fst snd]. split; [apply wf_set, W|]. split; [exact S|]. split.
    + replace (zsi + 2 - 1) with (zsi + 1) by lia.
      rewrite (get1_set_same td M (zsi + 1) _ W S ltac:(lia)). numR'. rewrite Hdzd, plus_IZR. ring.
    + eapply Desc_ext; [exact D|]. intros a b _ _. split; [tauto|].
      intros [Y|[(_ & Y & _) Y']]; [exact Y | lia].
  - intros p x Hp Hx. apply down_step; auto; lia.
  - split; [exact W'|]. split; [exact S'|]. eapply Desc_ext; [exact D'|].
    intros a b Ha _. cbv beta. split; [tauto|]. intros [Y|Y]; [left; exact Y | right; split; [exact Y | lia]].
Qed.

(* ---------- up ---------- *)
Definition InvU trk grad M (P0 : Z -> Z -> Prop) (k : Z) (st : arr R * arr R * arr Z) : Prop :=
  wf (fst (fst st)) /\ shape (fst (fst st)) = [M] /\
  get 0%R (fst (fst st)) [k + 1] = (vzero * (zsa - IZR (k + 1)) * dz)%R /\
  Desc trk grad (fun a b => P0 a b \/ (UpSet a b /\ k < a)) (snd (fst st)) (snd st).

Lemma up_step trk grad M (P0 : Z -> Z -> Prop) k st :
  nz <= M -> 0 <= k <= zsi - 1 -> P0 zsi (xsi + 1) -> P0 zsi xsi ->
  InvU trk grad M P0 k st ->
  InvU trk grad M P0 (k - 1) (up_body dx dz grad slow vzero xsa zsa xsi dxw dxe (1 / dz)%R (1 / dz / dz)%R k st).
Proof.
  intros HM Hk A1 A2. destruct st as [[td tt] sg]. unfold InvU. cbn [fst snd]. intros (W & S & Htd & D).
  cbv beta zeta delta [up_body]. cbn [fst snd].
  change (@nofZ R NumR 0) with 0%R.
  rewrite (Hslow k xsi) by lia.
  set (v := nadd (get 0%R td [k + 1]) (nmul dz vzero)).
  rewrite (get1_set_same td M k v W S ltac:(lia)).
  rewrite (get1_set_other td M k (k + 1) v S ltac:(lia) ltac:(lia) ltac:(lia)).
  assert (Kx : (IZR k + 1 <= IZR zsi)%R) by (z2r; lra).
  assert (Ev : v = (vzero * Rabs (IZR k - zsa) * dz)%R).
  { unfold v. numR'. rewrite Htd, plus_IZR. rabs. ring. }
  assert (T1 : nsub v (nmul (nmul vzero (nabs (nsub (nofZ k) zsa))) dz) = 0%R) by (rewrite Ev; numR'; ring).
  assert (T2 : nsub (get 0%R td [k + 1]) (nmul (nmul vzero (nabs (nadd (nsub (nofZ k) zsa) (nofZ 1)))) dz) = 0%R).
  { rewrite Htd, plus_IZR. numR'. rabs. ring. }
  rewrite T1, T2.
  set (tdn := set td [k] v).
  assert (Htdn : get 0%R tdn [k] = (vzero * Rabs (IZR k - zsa) * dz)%R).
  { unfold tdn. rewrite (get1_set_same td M k v W S ltac:(lia)). exact Ev. }
  assert (Hdzi : (0 <= 1 / dz)%R) by (unfold Rdiv; rewrite Rmult_1_l; left; apply Rinv_0_lt_compat; exact Hdz).
  assert (Hmono : (Rabs (IZR (k + 1) - zsa) <= Rabs (IZR k - zsa))%R) by (rewrite plus_IZR; rabs; lra).
  assert (Hsz : (0 <= IZR (-1) * (IZR k - zsa))%R) by lra.
  (* first block: line xsi + 1 *)
  rewrite (blk_z_eq grad (1 / dz)%R (1 / dz / dz)%R (xsi + 1) dxe (-1) 1 (k + 1) k tdn tt sg Hdzi
             Hsz ltac:(rewrite plus_IZR; lra) Hmono Htdn (Desc_val trk grad _ tt sg (k + 1) (xsi + 1) D ltac:(lia) ltac:(lia))).
  cbv zeta. cbn [fst snd].
  pose proof (Desc_update trk grad _ tt sg k (xsi + 1) _ _ (-1) 1 D ltac:(lia) ltac:(lia)
                (Desc_cond trk grad _ tt sg (k + 1) (xsi + 1) dxe D ltac:(lia) ltac:(lia))
                ltac:(unfold sgn_of; destruct (Z.leb_spec k zsi); lia)
                ltac:(unfold sgn_of; destruct (Z.leb_spec (xsi + 1) xsi); lia)) as D1.
  match type of D1 with Desc _ _ _ ?t1 ?s1 => set (tt1 := t1) in *; set (sg1 := s1) in * end.
  (* second block: line xsi *)
  rewrite (blk_z_eq grad (1 / dz)%R (1 / dz / dz)%R xsi dxw (-1) (-1) (k + 1) k tdn tt1 sg1 Hdzi
             Hsz ltac:(lra) Hmono Htdn (Desc_val trk grad _ tt1 sg1 (k + 1) xsi D1 ltac:(lia) ltac:(lia))).
  cbv zeta. cbn [fst snd].
  pose proof (Desc_update trk grad _ tt1 sg1 k xsi _ _ (-1) (-1) D1 ltac:(lia) ltac:(lia)
                (Desc_cond trk grad _ tt1 sg1 (k + 1) xsi dxw D1 ltac:(lia) ltac:(lia))
                ltac:(unfold sgn_of; destruct (Z.leb_spec k zsi); lia)
                ltac:(unfold sgn_of; destruct (Z.leb_spec xsi xsi); lia)) as D2.
  split; [apply wf_set, W|]. split; [exact S|]. split.
  - replace (k - 1 + 1) with k by lia. fold tdn. rewrite Htdn. rabs. ring.
  - eapply Desc_ext; [exact D2|]. clear D D1 D2 tt1 sg1.
    intros a b Ha Hb. cbv beta.
    assert (Mo : forall c, (ta (k + 1) c < Big)%R -> k + 1 <= zsi - 1 -> (ta (k + 1 + 1) c < Big)%R).
    { intros c Hr Hq. eapply Rle_lt_trans; [|exact Hr]. apply t_ana_mono_z; [exact Hv|].
      assert (IZR (k + 1) <= IZR zsi - 1)%R by (apply IZR_le in Hq; rewrite minus_IZR in Hq; exact Hq).
      rewrite (plus_IZR (k + 1) 1). rabs. lra. }
    assert (Reach : forall c, P0 zsi c -> ColOK c -> (ta (k + 1) c < Big)%R ->
                      P0 (k + 1) c \/ (UpSet (k + 1) c /\ k < k + 1)).
    { intros c Hc Hr Ht. destruct (Z.eq_dec (k + 1) zsi) as [E|N]; [left; rewrite E; exact Hc|].
      right. split; [|lia]. split; [exact Hr|]. split; [lia|]. apply Mo; [exact Ht | lia]. }
    split.
    + intros [[Y|(-> & -> & Q1 & _ & Q3)]|(-> & -> & Q1 & _ & Q3)].
      * destruct Y as [Y|[Y Y']]; [left; exact Y | right; split; [exact Y | lia]].
      * right. split; [|lia]. split; [left; auto|]. split; [lia | exact Q3].
      * right. split; [|lia]. split; [right; auto|]. split; [lia | exact Q3].
    + intros [Y|[(Hr & Hj & Ht) Hlt]]; [left; left; left; exact Y|].
      destruct (Z.eq_dec a k) as [->|Nb]; [|left; left; right; split; [split; auto | lia]].
      destruct Hr as [[-> Hd]|[-> Hd]].
      * left. right. repeat (split; auto). apply Reach; auto. left; auto.
      * right. repeat (split; auto). left. apply Reach; auto. right; auto.
Qed.

Lemma up_phase_desc trk grad M (P0 : Z -> Z -> Prop) td tt sg :
  wf td -> shape td = [M] -> nz <= M -> P0 zsi (xsi + 1) -> P0 zsi xsi ->
  Desc trk grad P0 tt sg ->
  let r := up_phase dx dz grad slow vzero xsa xsi zsa zsi dxw dxe dzu (td, tt, sg) in
  wf (fst (fst r)) /\ shape (fst (fst r)) = [M] /\
  Desc trk grad (fun a b => P0 a b \/ UpSet a b) (snd (fst r)) (snd r).
Proof.
  intros W S HM A1 A2 D r. subst r. unfold up_phase. cbv zeta. cbn [fst snd].
  rewrite (pyrange_down (zsi - 1) (zsi - 1)). replace (zsi - 1 - (zsi - 1)) with 0 by lia.
  set (n := Z.to_nat (zsi - 1 + 1)).
  match goal with |- context [for_list _ ?b ?s] =>
    pose proof (for_list_pos (fun q => InvU trk grad M P0 (zsi - 1 - q)) b (fun i => zsi - 1 - i) n 0 s) as L end.
  cbv beta in L. replace (zsi - 1 - (0 + Z.of_nat n)) with (-1) in L by lia.
  destruct L as (W' & S' & _ & D').
  - unfold InvU. cbn [fst snd]. split; [apply wf_set, W|]. split; [exact S|]. split.
    + replace (zsi - 1 - 0 + 1) with zsi by lia.
      rewrite (get1_set_same td M zsi _ W S ltac:(lia)). numR'. rewrite Hdzu. ring.
    + eapply Desc_ext; [exact D|]. intros a b _ _. split; [tauto|].
      intros [Y|[(_ & Y & _) Y']]; [exact Y | lia].
  - intros p x Hp Hx. replace (zsi - 1 - (p + 1)) with (zsi - 1 - p - 1) by lia. apply up_step; auto; lia.
  - split; [exact W'|]. split; [exact S'|]. eapply Desc_ext; [exact D'|].
    intros a b Ha _. cbv beta. split; [tauto|]. intros [Y|Y]; [left; exact Y | right; split; [exact Y | lia]].
Qed.

(* ---------- the corners of the source cell ---------- *)
Lemma corner_fst grad i j (tt tg : arr R) :
  fst (corner dx dz grad vzero xsa zsa i j tt tg) = set tt [i; j] (ta i j).
Proof. unfold corner. cbv zeta. cbn [fst]. rewrite t_anad_fst. reflexivity. Qed.

Lemma Desc_set_corner trk grad (P : Z -> Z -> Prop) tt sg i j :
  Desc trk grad P tt sg -> 0 <= i < nz -> 0 <= j < nx -> Corner i j ->
  Desc trk grad (fun a b => P a b \/ (a = i /\ b = j)) (set tt [i; j] (ta i j)) sg.
Proof.
  intros (W & S & Dec & Hget & Hsg) Hi Hj Hc.
  assert (I0 : inb tt [i; j] = true) by (eapply inb2_true; eauto).
  split; [apply wf_set, W|]. split; [exact S|]. split; [|split].
  - intros a b Ha Hb. destruct (Dec a b Ha Hb) as [Y|N]; [left; left; exact Y|].
    destruct (Z.eq_dec a i) as [->|Na]; [destruct (Z.eq_dec b j) as [->|Nb]|].
    + left. right. auto.
    + right. intros [Y|(_ & E)]; [exact (N Y) | exact (Nb E)].
    + right. intros [Y|(E & _)]; [exact (N Y) | exact (Na E)].
  - intros a b Ha Hb. destruct (list_eq_dec_Z [i; j] [a; b]) as [E|N].
    + injection E as <- <-. rewrite get_set_same by assumption. split; [reflexivity|].
      intros Hn. exfalso. apply Hn. right. auto.
    + rewrite get_set_other; [| exact I0 | eapply inb2_true; eauto | exact N].
      destruct (Hget a b Ha Hb) as [G1 G2]. apply idx2_neq in N. split.
      * intros [Y|E]; [exact (G1 Y) | exfalso; apply N; exact E].
      * intros Hn. apply G2. intros Y. apply Hn. left. exact Y.
  - intros Hg. destruct (Hsg Hg) as (Eg & Ws & Ss & Hs). split; [exact Eg|]. split; [exact Ws|]. split; [exact Ss|].
    intros a b Ha Hb [Y|[-> ->]] Hnc; [apply Hs; assumption | contradiction].
Qed.

Lemma corners_desc trk grad tt tg sg :
  wf tt -> shape tt = [nz; nx] ->
  (forall i j, 0 <= i < nz -> 0 <= j < nx -> get 0%R tt [i; j] = Big) ->
  (trk = true -> grad = true /\ wf sg /\ shape sg = [nz; nx; 2]) ->
  Desc trk grad Corner (fst (init_corners dx dz grad vzero xsa xsi zsa zsi tt tg)) sg.
Proof.
  intros W S Hbig Hsg.
  assert (D : Desc trk grad (fun _ _ => False) tt sg).
  { split; [exact W|]. split; [exact S|]. split; [|split].
    - intros; right; tauto.
    - intros i j Hi Hj. split; [tauto | intros _; apply Hbig; assumption].
    - intros Hg. destruct (Hsg Hg) as (? & ? & ?). repeat (split; [assumption|]). intros; tauto. }
  unfold init_corners. cbv zeta. rewrite !corner_fst.
  assert (C1 : Corner zsi xsi) by (unfold Corner; lia).
  assert (C2 : Corner (zsi + 1) xsi) by (unfold Corner; lia).
  assert (C3 : Corner zsi (xsi + 1)) by (unfold Corner; lia).
  assert (C4 : Corner (zsi + 1) (xsi + 1)) by (unfold Corner; lia).
  pose proof (Desc_set_corner trk grad _ _ _ zsi xsi D ltac:(lia) ltac:(lia) C1) as D1.
  pose proof (Desc_set_corner trk grad _ _ _ (zsi + 1) xsi D1 ltac:(lia) ltac:(lia) C2) as D2.
  pose proof (Desc_set_corner trk grad _ _ _ zsi (xsi + 1) D2 ltac:(lia) ltac:(lia) C3) as D3.
  pose proof (Desc_set_corner trk grad _ _ _ (zsi + 1) (xsi + 1) D3 ltac:(lia) ltac:(lia) C4) as D4.
  eapply Desc_ext; [exact D4|]. intros a b _ _. unfold Corner. cbv beta. lia.
Qed.

(* ---------- the whole initialisation ---------- *)
Definition InitSet (i j : Z) : Prop := Corner i j \/ EastSet i j \/ WestSet i j \/ DownSet i j \/ UpSet i j.

Theorem init_desc trk grad tt tg sg :
  wf tt -> shape tt = [nz; nx] ->
  (forall i j, 0 <= i < nz -> 0 <= j < nx -> get 0%R tt [i; j] = Big) ->
  (trk = true -> grad = true /\ wf sg /\ shape sg = [nz; nx; 2]) ->
  Desc trk grad InitSet
    (fst (fst (fteik2d_p2 dx dz grad 2 nx nz slow tt tg sg vzero xsa xsi zsa zsi)))
    (snd (fteik2d_p2 dx dz grad 2 nx nz slow tt tg sg vzero xsa xsi zsa zsi)).
Proof.
  intros W S Hbig Hsg.
  rewrite fteik2d_p2_decompose. change (2 =? 2) with true. cbv iota zeta. cbn [fst snd].
  change (nabs (nsub zsa (nofZ zsi))) with (Rabs (zsa - IZR zsi)).
  change (nabs (nsub xsa (nofZ xsi))) with (Rabs (xsa - IZR xsi)).
  rewrite (Rabs_pos_eq (zsa - IZR zsi)), (Rabs_pos_eq (xsa - IZR xsi)) by lra.
  rewrite <- Hdzu, <- Hdxw.
  change (nsub (nofZ 1) dzu) with (1 - dzu)%R. change (nsub (nofZ 1) dxw) with (1 - dxw)%R.
  replace (1 - dzu)%R with dzd by (rewrite Hdzu, Hdzd; ring).
  replace (1 - dxw)%R with dxe by (rewrite Hdxw, Hdxe; ring).
  set (M := Z.max nz nx).
  assert (W0 : wf (full [M] (@Big R NumR))) by (apply wf_full; repeat constructor; lia).
  pose proof (corners_desc trk grad tt tg sg W S Hbig Hsg) as D0.
  set (c := init_corners dx dz grad vzero xsa xsi zsa zsi tt tg) in *.
  assert (C1 : Corner zsi xsi) by (unfold Corner; lia).
  assert (C2 : Corner (zsi + 1) xsi) by (unfold Corner; lia).
  assert (C3 : Corner zsi (xsi + 1)) by (unfold Corner; lia).
  assert (C4 : Corner (zsi + 1) (xsi + 1)) by (unfold Corner; lia).
  destruct (east_phase_desc trk grad M Corner (full [M] Big) (fst c) sg W0 eq_refl ltac:(lia) C4 C3 D0) as (W1 & S1 & D1).
  set (st1 := east_phase dx dz grad nx slow vzero xsa xsi zsa zsi dzu dzd dxe (full [M] Big, fst c, sg)) in *.
  destruct (west_phase_desc trk grad M _ (fst (fst st1)) (snd (fst st1)) (snd st1) W1 S1 ltac:(lia)
              (or_introl C2) (or_introl C1) D1) as (W2 & S2 & D2).
  change (west_phase dx dz grad slow vzero xsa xsi zsa zsi dzu dzd dxw (fst (fst st1), snd (fst st1), snd st1))
    with (west_phase dx dz grad slow vzero xsa xsi zsa zsi dzu dzd dxw st1) in *.
  set (st2 := west_phase dx dz grad slow vzero xsa xsi zsa zsi dzu dzd dxw st1) in *.
  assert (W2' : wf (fill (fst (fst st2)) (@Big R NumR))).
  { unfold fill. rewrite S2. apply wf_full. repeat constructor; lia. }
  assert (S2' : shape (fill (fst (fst st2)) (@Big R NumR)) = [M]) by (unfold fill; rewrite S2; reflexivity).
  destruct (down_phase_desc trk grad M _ _ (snd (fst st2)) (snd st2) W2' S2' ltac:(lia)
              (or_introl (or_introl C4)) (or_introl (or_introl C2)) D2) as (W3 & S3 & D3).
  set (st3 := down_phase dx dz grad nz slow vzero xsa xsi zsa zsi dxw dxe dzd
                (fill (fst (fst st2)) Big, snd (fst st2), snd st2)) in *.
  destruct (up_phase_desc trk grad M _ (fst (fst st3)) (snd (fst st3)) (snd st3) W3 S3 ltac:(lia)
              (or_introl (or_introl (or_introl C3))) (or_introl (or_introl (or_introl C1))) D3) as (_ & _ & D4).
  change (up_phase dx dz grad slow vzero xsa xsi zsa zsi dxw dxe dzu (fst (fst st3), snd (fst st3), snd st3))
    with (up_phase dx dz grad slow vzero xsa xsi zsa zsi dxw dxe dzu st3) in D4.
  eapply Desc_ext; [exact D4|]. intros a b _ _. unfold InitSet. cbv beta. tauto.
Qed.
End Homog.

(* ========================================================================================== *)
(* C. C01: the source-line initialisation is exact in a homogeneous medium                      *)
(* ========================================================================================== *)
(* the nodes written by the initialisation, with the fractional distances as the code computes them *)
Definition init_set (dz dx vzero zsa xsa : R) (zsi xsi : Z) (i j : Z) : Prop :=
  let dzu := Rabs (zsa - IZR zsi) in let dzd := (1 - dzu)%R in
  let dxw := Rabs (xsa - IZR xsi) in let dxe := (1 - dxw)%R in
  InitSet dz dx vzero zsa xsa zsi xsi dzu dzd dxw dxe i j.

(* ... spelled out: the four corners of the source cell; on the two rows of the source cell (row zsi + 1 only if
   dzd > 0, row zsi only if dzu > 0) the nodes east and west of the cell as long as the previous node of the row is
   below Big; likewise on the two columns of the source cell *)
Lemma init_set_spelled_out dz dx vzero zsa xsa zsi xsi i j :
  let dzu := Rabs (zsa - IZR zsi) in let dzd := (1 - dzu)%R in
  let dxw := Rabs (xsa - IZR xsi) in let dxe := (1 - dxw)%R in
  let ta a b := t_ana a b dz dx zsa xsa vzero in
  let row_ok := (i = zsi + 1 /\ (0 < dzd)%R) \/ (i = zsi /\ (0 < dzu)%R) in
  let col_ok := (j = xsi + 1 /\ (0 < dxe)%R) \/ (j = xsi /\ (0 < dxw)%R) in
  init_set dz dx vzero zsa xsa zsi xsi i j <->
    (zsi <= i <= zsi + 1 /\ xsi <= j <= xsi + 1) \/
    (row_ok /\ xsi + 2 <= j /\ (ta i (j - 1)%Z < Big)%R) \/
    (row_ok /\ j <= xsi - 1 /\ (ta i (j + 1)%Z < Big)%R) \/
    (col_ok /\ zsi + 2 <= i /\ (ta (i - 1)%Z j < Big)%R) \/
    (col_ok /\ i <= zsi - 1 /\ (ta (i + 1)%Z j < Big)%R).
Proof. reflexivity. Qed.

Theorem fteik2d_init_homogeneous_exact nz nx dz dx grad slow tt ttgrad ttsgn vzero zsa xsa zsi xsi :
  (0 < dz)%R -> (0 < dx)%R -> (0 <= vzero)%R ->
  0 <= zsi < nz - 1 -> 0 <= xsi < nx - 1 ->
  (IZR zsi <= zsa <= IZR zsi + 1)%R -> (IZR xsi <= xsa <= IZR xsi + 1)%R ->
  (forall i j, 0 <= i < nz - 1 -> 0 <= j < nx - 1 -> get 0%R slow [i; j] = vzero) ->
  wf tt -> shape tt = [nz; nx] ->
  (forall i j, 0 <= i < nz -> 0 <= j < nx -> get 0%R tt [i; j] = Big) ->
  let r := fteik2d_p2 dx dz grad 2 nx nz slow tt ttgrad ttsgn vzero xsa xsi zsa zsi in
  forall i j, 0 <= i < nz -> 0 <= j < nx ->
    (init_set dz dx vzero zsa xsa zsi xsi i j \/ ~ init_set dz dx vzero zsa xsa zsi xsi i j) /\
    (init_set dz dx vzero zsa xsa zsi xsi i j ->
       get 0%R (fst (fst r)) [i; j] = t_ana i j dz dx zsa xsa vzero) /\
    (~ init_set dz dx vzero zsa xsa zsi xsi i j -> get 0%R (fst (fst r)) [i; j] = Big).
Proof.
  intros Hdz Hdx Hv Hzsi Hxsi Hzsa Hxsa Hslow W S Hbig r i j Hi Hj.
  pose proof (init_desc nz nx dz dx vzero zsa xsa zsi xsi Hdz Hdx Hv Hzsi Hxsi Hzsa Hxsa
                (Rabs (zsa - IZR zsi)) (1 - Rabs (zsa - IZR zsi))%R (Rabs (xsa - IZR xsi)) (1 - Rabs (xsa - IZR xsi))%R
                slow
                ltac:(rewrite Rabs_pos_eq by lra; reflexivity) ltac:(rewrite Rabs_pos_eq by lra; ring)
                ltac:(rewrite Rabs_pos_eq by lra; reflexivity) ltac:(rewrite Rabs_pos_eq by lra; ring)
                Hslow false grad tt ttgrad ttsgn W S Hbig ltac:(intros E; discriminate E)) as D.
  fold r in D. destruct D as (_ & _ & Dec & Hget & _).
  split; [exact (Dec i j Hi Hj)|]. exact (Hget i j Hi Hj).
Qed.

(* every node is either exact or untouched *)
Corollary fteik2d_init_homogeneous_exact_or_Big nz nx dz dx grad slow tt ttgrad ttsgn vzero zsa xsa zsi xsi :
  (0 < dz)%R -> (0 < dx)%R -> (0 <= vzero)%R ->
  0 <= zsi < nz - 1 -> 0 <= xsi < nx - 1 ->
  (IZR zsi <= zsa <= IZR zsi + 1)%R -> (IZR xsi <= xsa <= IZR xsi + 1)%R ->
  (forall i j, 0 <= i < nz - 1 -> 0 <= j < nx - 1 -> get 0%R slow [i; j] = vzero) ->
  wf tt -> shape tt = [nz; nx] ->
  (forall i j, 0 <= i < nz -> 0 <= j < nx -> get 0%R tt [i; j] = Big) ->
  let r := fteik2d_p2 dx dz grad 2 nx nz slow tt ttgrad ttsgn vzero xsa xsi zsa zsi in
  forall i j, 0 <= i < nz -> 0 <= j < nx ->
    get 0%R (fst (fst r)) [i; j] = t_ana i j dz dx zsa xsa vzero \/ get 0%R (fst (fst r)) [i; j] = Big.
Proof.
  intros Hdz Hdx Hv Hzsi Hxsi Hzsa Hxsa Hslow W S Hbig r i j Hi Hj.
  destruct (fteik2d_init_homogeneous_exact nz nx dz dx grad slow tt ttgrad ttsgn vzero zsa xsa zsi xsi
              Hdz Hdx Hv Hzsi Hxsi Hzsa Hxsa Hslow W S Hbig i j Hi Hj) as ([Y|N] & G1 & G2); [left|right]; auto.
Qed.

(* the sign array (grad = true): every node written by a loop carries the signs of that loop,
   -1 at and below the source's cell index, +1 above *)
Theorem fteik2d_init_homogeneous_signs nz nx dz dx slow tt ttgrad ttsgn vzero zsa xsa zsi xsi :
  (0 < dz)%R -> (0 < dx)%R -> (0 <= vzero)%R ->
  0 <= zsi < nz - 1 -> 0 <= xsi < nx - 1 ->
  (IZR zsi <= zsa <= IZR zsi + 1)%R -> (IZR xsi <= xsa <= IZR xsi + 1)%R ->
  (forall i j, 0 <= i < nz - 1 -> 0 <= j < nx - 1 -> get 0%R slow [i; j] = vzero) ->
  wf tt -> shape tt = [nz; nx] ->
  (forall i j, 0 <= i < nz -> 0 <= j < nx -> get 0%R tt [i; j] = Big) ->
  wf ttsgn -> shape ttsgn = [nz; nx; 2] ->
  let r := fteik2d_p2 dx dz true 2 nx nz slow tt ttgrad ttsgn vzero xsa xsi zsa zsi in
  forall i j, 0 <= i < nz -> 0 <= j < nx ->
    init_set dz dx vzero zsa xsa zsi xsi i j -> ~ (zsi <= i <= zsi + 1 /\ xsi <= j <= xsi + 1) ->
    get 0 (snd r) [i; j; 0] = (if i <=? zsi then -1 else 1) /\
    get 0 (snd r) [i; j; 1] = (if j <=? xsi then -1 else 1).
Proof.
  intros Hdz Hdx Hv Hzsi Hxsi Hzsa Hxsa Hslow W S Hbig Ws Ss r i j Hi Hj Hset Hnc.
  pose proof (init_desc nz nx dz dx vzero zsa xsa zsi xsi Hdz Hdx Hv Hzsi Hxsi Hzsa Hxsa
                (Rabs (zsa - IZR zsi)) (1 - Rabs (zsa - IZR zsi))%R (Rabs (xsa - IZR xsi)) (1 - Rabs (xsa - IZR xsi))%R
                slow
                ltac:(rewrite Rabs_pos_eq by lra; reflexivity) ltac:(rewrite Rabs_pos_eq by lra; ring)
                ltac:(rewrite Rabs_pos_eq by lra; reflexivity) ltac:(rewrite Rabs_pos_eq by lra; ring)
                Hslow true true tt ttgrad ttsgn W S Hbig ltac:(intros _; auto)) as D.
  fold r in D. destruct D as (_ & _ & _ & _ & Hsg). destruct (Hsg eq_refl) as (_ & _ & _ & Hs).
  exact (Hs i j Hi Hj Hset Hnc).
Qed.

(* ---------- non-vacuity ---------- *)
Lemma sqrt_lt_Big (x : R) : (0 <= x < 100000 * 100000)%R -> (sqrt x < @Big R NumR)%R.
Proof.
  intros Hx. change (@Big R NumR) with 100000%R. rewrite <- (sqrt_square 100000) by lra.
  apply sqrt_lt_1_alt. exact Hx.
Qed.

(* 4 x 4 nodes, dz = 1, dx = 2, slowness 1, source at (5/4, 3/2) inside cell (1, 1): node (2, 3) is written by the
   east loop (with the analytic time sqrt ((3/4)^2 + 3^2) and signs (+1, +1)), node (0, 1) by the up loop, and
   the corner (0, 0) of the grid is not touched *)
Example fteik2d_init_homogeneous_exact_ex :
  let r := fteik2d_p2 2%R 1%R true 2 4 4 (full [3; 3] 1%R) (full [4; 4] Big) (full [4; 4; 2] 0%R) (full [4; 4; 2] 0)
             1%R (3 / 2)%R 1 (5 / 4)%R 1 in
  get 0%R (fst (fst r)) [2; 3] = t_ana 2 3 1%R 2%R (5 / 4)%R (3 / 2)%R 1%R /\
  t_ana 2 3 1%R 2%R (5 / 4)%R (3 / 2)%R 1%R = sqrt ((3 / 4) ^ 2 + 3 ^ 2)%R /\
  get 0 (snd r) [2; 3; 0] = 1 /\ get 0 (snd r) [2; 3; 1] = 1 /\
  get 0%R (fst (fst r)) [0; 1] = t_ana 0 1 1%R 2%R (5 / 4)%R (3 / 2)%R 1%R /\
  get 0 (snd r) [0; 1; 0] = -1 /\ get 0 (snd r) [0; 1; 1] = -1 /\
  get 0%R (fst (fst r)) [0; 0] = Big.
Proof.
  intros r.
  assert (Hslow : forall i j, 0 <= i < 4 - 1 -> 0 <= j < 4 - 1 -> get 0%R (full [3; 3] 1%R) [i; j] = 1%R).
  { intros i j Hi Hj. apply get_full. cbn [inb_sh].
    repeat (apply andb_true_intro; split); first [reflexivity | apply Z.leb_le; lia | apply Z.ltb_lt; lia]. }
  assert (Hbig : forall i j, 0 <= i < 4 -> 0 <= j < 4 -> get 0%R (full [4; 4] (@Big R NumR)) [i; j] = Big).
  { intros i j Hi Hj. apply get_full. cbn [inb_sh].
    repeat (apply andb_true_intro; split); first [reflexivity | apply Z.leb_le; lia | apply Z.ltb_lt; lia]. }
  assert (Wt : wf (full [4; 4] (@Big R NumR))) by (apply wf_full; repeat constructor; lia).
  assert (Ws : wf (full [4; 4; 2] 0)) by (apply wf_full; repeat constructor; lia).
  assert (A1 : Rabs (5 / 4 - 1) = (1 / 4)%R) by (rewrite Rabs_pos_eq; lra).
  assert (A2 : Rabs (3 / 2 - 1) = (1 / 2)%R) by (rewrite Rabs_pos_eq; lra).
  (* node (2, 3): east loop, previous node (2, 2) at time 5/4 *)
  assert (S23 : init_set 1 2 1 (5 / 4) (3 / 2) 1 1 2 3).
  { apply init_set_spelled_out. right. left. split; [left; split; [lia | rewrite A1; lra]|]. split; [lia|].
    rewrite t_ana_exact. rewrite Rmult_1_l. apply sqrt_lt_Big. change (IZR (3 - 1)) with 2%R. change (IZR 2) with 2%R. lra. }
  (* node (0, 1): up loop, previous node (1, 1) at time sqrt (1/16 + 1) *)
  assert (S01 : init_set 1 2 1 (5 / 4) (3 / 2) 1 1 0 1).
  { apply init_set_spelled_out. right. right. right. right. split; [right; split; [lia | rewrite A2; lra]|]. split; [lia|].
    rewrite t_ana_exact. rewrite Rmult_1_l. apply sqrt_lt_Big. change (IZR (0 + 1)) with 1%R. change (IZR 1) with 1%R. lra. }
  assert (N00 : ~ init_set 1 2 1 (5 / 4) (3 / 2) 1 1 0 0).
  { intros Hs. cbv beta zeta delta [init_set InitSet Corner EastSet WestSet DownSet UpSet RowOK ColOK] in Hs.
    destruct Hs as [?|[([[? _]|[? _]] & _)|[([[? _]|[? _]] & _)|[([[? _]|[? _]] & _)|([[? _]|[? _]] & _)]]]]; lia. }
  pose proof (fteik2d_init_homogeneous_exact 4 4 1 2 true (full [3; 3] 1%R) (full [4; 4] Big) (full [4; 4; 2] 0%R)
                (full [4; 4; 2] 0) 1 (5 / 4) (3 / 2) 1 1 ltac:(lra) ltac:(lra) ltac:(lra) ltac:(lia) ltac:(lia)
                ltac:(lra) ltac:(lra) Hslow Wt eq_refl Hbig) as E. fold r in E.
  pose proof (fteik2d_init_homogeneous_signs 4 4 1 2 (full [3; 3] 1%R) (full [4; 4] Big) (full [4; 4; 2] 0%R)
                (full [4; 4; 2] 0) 1 (5 / 4) (3 / 2) 1 1 ltac:(lra) ltac:(lra) ltac:(lra) ltac:(lia) ltac:(lia)
                ltac:(lra) ltac:(lra) Hslow Wt eq_refl Hbig Ws eq_refl) as G. fold r in G.
  destruct (E 2 3 ltac:(lia) ltac:(lia)) as (_ & E23 & _).
  destruct (E 0 1 ltac:(lia) ltac:(lia)) as (_ & E01 & _).
  destruct (E 0 0 ltac:(lia) ltac:(lia)) as (_ & _ & E00).
  destruct (G 2 3 ltac:(lia) ltac:(lia) S23 ltac:(lia)) as [G1 G2].
  destruct (G 0 1 ltac:(lia) ltac:(lia) S01 ltac:(lia)) as [G3 G4].
  split; [exact (E23 S23)|]. split.
  { rewrite t_ana_exact, Rmult_1_l. f_equal. change (IZR 2) with 2%R. change (IZR 3) with 3%R. lra. }
  split; [exact G1|]. split; [exact G2|]. split; [exact (E01 S01)|]. split; [exact G3|]. split; [exact G4|].
  exact (E00 N00).
Qed.

(* the same pattern on binary64 (the generated function evaluated by vm_compute): 5 x 5 nodes, dz = 1, dx = 2,
   slowness 3/2, source (9/4, 7/4) in cell (2, 1).  Rows 2, 3 and columns 1, 2 are written and agree with the
   analytic time to 2^-49 (the guard `tnew >= tt[prev] and tnew >= td[k]` passes in floating point here too), the
   other nodes keep Big *)
Module FloatExample.
Import PrimFloat.
Definition ex_run :=
  fteik2d_p2 (T := float) 2.0%float 1.0%float true 2 5 5 (full [4; 4] 1.5%float) (full [5; 5] Big)
    (full [5; 5; 2] 0%float) (full [5; 5; 2] 0) 1.5%float 1.75%float 1 2.25%float 2.
Definition close (i j : Z) : bool :=
  PrimFloat.leb (PrimFloat.abs (PrimFloat.sub (get 0%float (fst (fst ex_run)) [i; j])
                                               (t_ana i j 1.0%float 2.0%float 2.25%float 1.75%float 1.5%float)))
                0x1p-49%float.
Definition is_big (i j : Z) : bool := PrimFloat.eqb (get 0%float (fst (fst ex_run)) [i; j]) Big.
Example homogeneous_pattern_binary64 :
  map (fun i => map (fun j => (close i j, is_big i j)) [0; 1; 2; 3; 4]) [0; 1; 2; 3; 4] =
  let w := (true, false) in let u := (false, true) in
  [[u; w; w; u; u];
   [u; w; w; u; u];
   [w; w; w; w; w];
   [w; w; w; w; w];
   [u; w; w; u; u]].
Proof. vm_compute. reflexivity. Qed.
End FloatExample.

(* ========================================================================================== *)
(* D. which nodes a block / a loop body / a loop can modify (any medium, any parameters)         *)
(* ========================================================================================== *)
Section Frames.
Variables (nz nx : Z).
Notation St := (arr R * arr R * arr Z)%type.
Definition ttof (s : St) : arr R := snd (fst s).

(* `tt2` has the shape of `tt`, is well formed if `tt` is, and agrees with it outside the node set `Wr` *)
Definition Frame (Wr : Z -> Z -> Prop) (tt tt2 : arr R) : Prop :=
  shape tt2 = shape tt /\ (wf tt -> wf tt2) /\
  forall a b, 0 <= a < nz -> 0 <= b < nx -> ~ Wr a b -> get 0%R tt2 [a; b] = get 0%R tt [a; b].

Lemma Frame_refl Wr tt : Frame Wr tt tt.
Proof. split; [reflexivity|]. split; auto. Qed.
Lemma Frame_trans (W1 W2 : Z -> Z -> Prop) tt tt2 tt3 :
  Frame W1 tt tt2 -> Frame W2 tt2 tt3 -> Frame (fun a b => W1 a b \/ W2 a b) tt tt3.
Proof.
  intros (S1 & F1 & G1) (S2 & F2 & G2). split; [congruence|]. split; [auto|].
  intros a b Ha Hb N. rewrite G2, G1; auto.
Qed.
Lemma Frame_weaken (W1 W2 : Z -> Z -> Prop) tt tt2 :
  Frame W1 tt tt2 -> (forall a b, 0 <= a < nz -> 0 <= b < nx -> W1 a b -> W2 a b) -> Frame W2 tt tt2.
Proof. intros (S1 & F1 & G1) Hw. split; [exact S1|]. split; [exact F1|]. intros a b Ha Hb N. apply G1; auto. Qed.
Lemma Frame_set tt i j (v : R) :
  shape tt = [nz; nx] -> 0 <= i < nz -> 0 <= j < nx -> Frame (fun a b => a = i /\ b = j) tt (set tt [i; j] v).
Proof.
  intros S Hi Hj. split; [reflexivity|]. split; [apply wf_set|].
  intros a b Ha Hb N. apply get_set_other; try (eapply inb2_true; eauto).
  intros E. apply N. injection E as -> ->. auto.
Qed.

Lemma blk_x_frame (dx dz : R) grad (vzero xsa zsa dxi dx2i : R) row (dzw : R) sgz sgx jp j (vref tauv tauev : R) td tt sg :
  shape tt = [nz; nx] -> 0 <= row < nz -> 0 <= j < nx ->
  Frame (fun a b => a = row /\ b = j) tt
    (fst (blk_x dx dz grad vzero xsa zsa dxi dx2i row dzw sgz sgx jp j vref tauv tauev td tt sg)).
Proof.
  intros S Hr Hj. unfold blk_x. cbv zeta.
  match goal with |- context [if ?c then _ else _] => destruct c end; [|apply Frame_refl].
  match goal with |- context [if ?c then _ else _] => destruct c end; cbn [fst]; [|apply Frame_refl].
  apply Frame_set; assumption.
Qed.
Lemma blk_z_frame (dx dz : R) grad (vzero xsa zsa dzi dz2i : R) col (dxw : R) sgz sgx ip i (vref taue tauev : R) td tt sg :
  shape tt = [nz; nx] -> 0 <= i < nz -> 0 <= col < nx ->
  Frame (fun a b => a = i /\ b = col) tt
    (fst (blk_z dx dz grad vzero xsa zsa dzi dz2i col dxw sgz sgx ip i vref taue tauev td tt sg)).
Proof.
  intros S Hr Hj. unfold blk_z. cbv zeta.
  match goal with |- context [if ?c then _ else _] => destruct c end; [|apply Frame_refl].
  match goal with |- context [if ?c then _ else _] => destruct c end; cbn [fst]; [|apply Frame_refl].
  apply Frame_set; assumption.
Qed.

(* a loop modifies at most what its iterations modify *)
Lemma for_list_frame (body : Z -> St -> St) (Wk : Z -> Z -> Z -> Prop) l :
  forall st, shape (ttof st) = [nz; nx] ->
  (forall k s, In k l -> shape (ttof s) = [nz; nx] -> Frame (Wk k) (ttof s) (ttof (body k s))) ->
  Frame (fun a b => exists k, In k l /\ Wk k a b) (ttof st) (ttof (for_list l body st)).
Proof.
  induction l as [|k l IH]; intros st S Hb.
  - cbn. apply Frame_refl.
  - rewrite for_list_cons.
    pose proof (Hb k st (or_introl eq_refl) S) as F1.
    assert (S1 : shape (ttof (body k st)) = [nz; nx]) by (destruct F1 as (E & _); congruence).
    pose proof (IH (body k st) S1 (fun k' s Hk => Hb k' s (or_intror Hk))) as F2.
    eapply Frame_weaken; [exact (Frame_trans _ _ _ _ _ F1 F2)|].
    intros a b _ _ [Y|(k' & Hk' & Y)]; [exists k; split; [left; reflexivity | exact Y] | exists k'; split; [right; exact Hk' | exact Y]].
Qed.

Variables (dx dz : R) (grad : bool) (slow : arr R) (vzero xsa zsa : R) (zsi xsi : Z).
Hypothesis Hzsi : 0 <= zsi < nz - 1.
Hypothesis Hxsi : 0 <= xsi < nx - 1.

Definition OnRows (a : Z) : Prop := a = zsi + 1 \/ a = zsi.
Definition OnCols (b : Z) : Prop := b = xsi + 1 \/ b = xsi.

Lemma east_body_frame (dzu dzd dxi dx2i : R) k st :
  shape (ttof st) = [nz; nx] -> 0 <= k < nx ->
  Frame (fun a b => OnRows a /\ b = k) (ttof st)
    (ttof (east_body dx dz grad slow vzero xsa zsa zsi dzu dzd dxi dx2i k st)).
Proof.
  intros S Hk. destruct st as [[td tt] sg]. unfold ttof in *. cbn [fst snd] in S.
  cbv beta zeta delta [east_body]. cbn [fst snd].
  match goal with |- Frame _ _ (fst (blk_x _ _ _ _ _ _ _ _ _ _ _ _ _ _ ?vr ?tv ?tev ?tdn (fst ?B1) (snd ?B1))) =>
    pose proof (blk_x_frame dx dz grad vzero xsa zsa dxi dx2i (zsi + 1) dzd 1 1 (k - 1) k
                  vr tv tev tdn tt sg S ltac:(lia) Hk) as F1;
    set (b1 := B1) in * end.
  assert (S1 : shape (fst b1) = [nz; nx]) by (destruct F1 as (E & _); congruence).
  match goal with |- Frame _ _ (fst (blk_x _ _ _ _ _ _ _ _ _ _ _ _ _ _ ?vr ?tv ?tev ?tdn _ _)) =>
    pose proof (blk_x_frame dx dz grad vzero xsa zsa dxi dx2i zsi dzu (-1) 1 (k - 1) k vr tv tev tdn (fst b1) (snd b1)
                  S1 ltac:(lia) Hk) as F2 end.
  eapply Frame_weaken; [exact (Frame_trans _ _ _ _ _ F1 F2)|].
  intros a b _ _ [[-> ->]|[-> ->]]; (split; [unfold OnRows; auto | reflexivity]).
Qed.
Lemma west_body_frame (dzu dzd dxi dx2i : R) k st :
  shape (ttof st) = [nz; nx] -> 0 <= k < nx ->
  Frame (fun a b => OnRows a /\ b = k) (ttof st)
    (ttof (west_body dx dz grad slow vzero xsa zsa zsi dzu dzd dxi dx2i k st)).
Proof.
  intros S Hk. destruct st as [[td tt] sg]. unfold ttof in *. cbn [fst snd] in S.
  cbv beta zeta delta [west_body]. cbn [fst snd].
  match goal with |- Frame _ _ (fst (blk_x _ _ _ _ _ _ _ _ _ _ _ _ _ _ ?vr ?tv ?tev ?tdn (fst ?B1) (snd ?B1))) =>
    pose proof (blk_x_frame dx dz grad vzero xsa zsa dxi dx2i (zsi + 1) dzd 1 (-1) (k + 1) k
                  vr tv tev tdn tt sg S ltac:(lia) Hk) as F1;
    set (b1 := B1) in * end.
  assert (S1 : shape (fst b1) = [nz; nx]) by (destruct F1 as (E & _); congruence).
  match goal with |- Frame _ _ (fst (blk_x _ _ _ _ _ _ _ _ _ _ _ _ _ _ ?vr ?tv ?tev ?tdn _ _)) =>
    pose proof (blk_x_frame dx dz grad vzero xsa zsa dxi dx2i zsi dzu (-1) (-1) (k + 1) k vr tv tev tdn (fst b1) (snd b1)
                  S1 ltac:(lia) Hk) as F2 end.
  eapply Frame_weaken; [exact (Frame_trans _ _ _ _ _ F1 F2)|].
  intros a b _ _ [[-> ->]|[-> ->]]; (split; [unfold OnRows; auto | reflexivity]).
Qed.
Lemma down_body_frame (dxw dxe dzi dz2i : R) k st :
  shape (ttof st) = [nz; nx] -> 0 <= k < nz ->
  Frame (fun a b => a = k /\ OnCols b) (ttof st)
    (ttof (down_body dx dz grad slow vzero xsa zsa xsi dxw dxe dzi dz2i k st)).
Proof.
  intros S Hk. destruct st as [[td tt] sg]. unfold ttof in *. cbn [fst snd] in S.
  cbv beta zeta delta [down_body]. cbn [fst snd].
  match goal with |- Frame _ _ (fst (blk_z _ _ _ _ _ _ _ _ _ _ _ _ _ _ ?vr ?tv ?tev ?tdn (fst ?B1) (snd ?B1))) =>
    pose proof (blk_z_frame dx dz grad vzero xsa zsa dzi dz2i (xsi + 1) dxe 1 1 (k - 1) k
                  vr tv tev tdn tt sg S Hk ltac:(lia)) as F1;
    set (b1 := B1) in * end.
  assert (S1 : shape (fst b1) = [nz; nx]) by (destruct F1 as (E & _); congruence).
  match goal with |- Frame _ _ (fst (blk_z _ _ _ _ _ _ _ _ _ _ _ _ _ _ ?vr ?tv ?tev ?tdn _ _)) =>
    pose proof (blk_z_frame dx dz grad vzero xsa zsa dzi dz2i xsi dxw 1 (-1) (k - 1) k vr tv tev tdn (fst b1) (snd b1)
                  S1 Hk ltac:(lia)) as F2 end.
  eapply Frame_weaken; [exact (Frame_trans _ _ _ _ _ F1 F2)|].
  intros a b _ _ [[-> ->]|[-> ->]]; (split; [reflexivity | unfold OnCols; auto]).
Qed.
Lemma up_body_frame (dxw dxe dzi dz2i : R) k st :
  shape (ttof st) = [nz; nx] -> 0 <= k < nz ->
  Frame (fun a b => a = k /\ OnCols b) (ttof st)
    (ttof (up_body dx dz grad slow vzero xsa zsa xsi dxw dxe dzi dz2i k st)).
Proof.
  intros S Hk. destruct st as [[td tt] sg]. unfold ttof in *. cbn [fst snd] in S.
  cbv beta zeta delta [up_body]. cbn [fst snd].
  match goal with |- Frame _ _ (fst (blk_z _ _ _ _ _ _ _ _ _ _ _ _ _ _ ?vr ?tv ?tev ?tdn (fst ?B1) (snd ?B1))) =>
    pose proof (blk_z_frame dx dz grad vzero xsa zsa dzi dz2i (xsi + 1) dxe (-1) 1 (k + 1) k
                  vr tv tev tdn tt sg S Hk ltac:(lia)) as F1;
    set (b1 := B1) in * end.
  assert (S1 : shape (fst b1) = [nz; nx]) by (destruct F1 as (E & _); congruence).
  match goal with |- Frame _ _ (fst (blk_z _ _ _ _ _ _ _ _ _ _ _ _ _ _ ?vr ?tv ?tev ?tdn _ _)) =>
    pose proof (blk_z_frame dx dz grad vzero xsa zsa dzi dz2i xsi dxw (-1) (-1) (k + 1) k vr tv tev tdn (fst b1) (snd b1)
                  S1 Hk ltac:(lia)) as F2 end.
  eapply Frame_weaken; [exact (Frame_trans _ _ _ _ _ F1 F2)|].
  intros a b _ _ [[-> ->]|[-> ->]]; (split; [reflexivity | unfold OnCols; auto]).
Qed.

(* the four phases *)
Lemma east_phase_frame (dzu dzd dxe : R) st :
  shape (ttof st) = [nz; nx] ->
  Frame (fun a b => OnRows a /\ xsi + 2 <= b) (ttof st)
    (ttof (east_phase dx dz grad nx slow vzero xsa xsi zsa zsi dzu dzd dxe st)).
Proof.
  intros S. unfold east_phase. cbv zeta.
  match goal with |- Frame _ _ (ttof (for_list ?l ?bd ?s)) =>
    pose proof (for_list_frame bd (fun k a b => OnRows a /\ b = k) l s S) as F end.
  eapply Frame_weaken; [apply F|].
  - intros k s Hk Ss. apply in_pyrange_up in Hk. apply east_body_frame; [exact Ss | lia].
  - intros a b _ _ (k & Hk & Ha & ->). apply in_pyrange_up in Hk. split; [exact Ha | lia].
Qed.
Lemma west_phase_frame (dzu dzd dxw : R) st :
  shape (ttof st) = [nz; nx] ->
  Frame (fun a b => OnRows a /\ b <= xsi - 1) (ttof st)
    (ttof (west_phase dx dz grad slow vzero xsa xsi zsa zsi dzu dzd dxw st)).
Proof.
  intros S. unfold west_phase. cbv zeta.
  match goal with |- Frame _ _ (ttof (for_list ?l ?bd ?s)) =>
    pose proof (for_list_frame bd (fun k a b => OnRows a /\ b = k) l s S) as F end.
  eapply Frame_weaken; [apply F|].
  - intros k s Hk Ss. apply in_pyrange_down in Hk. apply west_body_frame; [exact Ss | lia].
  - intros a b _ _ (k & Hk & Ha & ->). apply in_pyrange_down in Hk. split; [exact Ha | lia].
Qed.
Lemma down_phase_frame (dxw dxe dzd : R) st :
  shape (ttof st) = [nz; nx] ->
  Frame (fun a b => zsi + 2 <= a /\ OnCols b) (ttof st)
    (ttof (down_phase dx dz grad nz slow vzero xsa xsi zsa zsi dxw dxe dzd st)).
Proof.
  intros S. unfold down_phase. cbv zeta.
  match goal with |- Frame _ _ (ttof (for_list ?l ?bd ?s)) =>
    pose proof (for_list_frame bd (fun k a b => a = k /\ OnCols b) l s S) as F end.
  eapply Frame_weaken; [apply F|].
  - intros k s Hk Ss. apply in_pyrange_up in Hk. apply down_body_frame; [exact Ss | lia].
  - intros a b _ _ (k & Hk & -> & Hb). apply in_pyrange_up in Hk. split; [lia | exact Hb].
Qed.
Lemma up_phase_frame (dxw dxe dzu : R) st :
  shape (ttof st) = [nz; nx] ->
  Frame (fun a b => a <= zsi - 1 /\ OnCols b) (ttof st)
    (ttof (up_phase dx dz grad slow vzero xsa xsi zsa zsi dxw dxe dzu st)).
Proof.
  intros S. unfold up_phase. cbv zeta.
  match goal with |- Frame _ _ (ttof (for_list ?l ?bd ?s)) =>
    pose proof (for_list_frame bd (fun k a b => a = k /\ OnCols b) l s S) as F end.
  eapply Frame_weaken; [apply F|].
  - intros k s Hk Ss. apply in_pyrange_down in Hk. apply up_body_frame; [exact Ss | lia].
  - intros a b _ _ (k & Hk & -> & Hb). apply in_pyrange_down in Hk. split; [lia | exact Hb].
Qed.
End Frames.

(* ========================================================================================== *)
(* E. C05: the initialisation under a change of the slowness unit or of the length unit          *)
(* ========================================================================================== *)
(* the two unit changes: slowness (slow, vzero multiplied by c) and length (dz, dx multiplied by c; the source
   position zsa, xsa is in grid units and does not change).  Both multiply every time by c. *)
Inductive skind := Slowness | Length.
Definition sc_v (k : skind) (c v : R) : R := match k with Slowness => (c * v)%R | Length => v end.
Definition sc_h (k : skind) (c h : R) : R := match k with Slowness => h | Length => (c * h)%R end.
Definition sc_i (k : skind) (c q : R) : R := match k with Slowness => q | Length => (q / c)%R end.
Definition sc_i2 (k : skind) (c q : R) : R := match k with Slowness => q | Length => (q / (c * c))%R end.
Definition sc_slow (k : skind) (c : R) (slow : arr R) : arr R := match k with Slowness => smap c slow | Length => slow end.

Lemma get_sc_slow k c slow idx : get 0%R (sc_slow k c slow) idx = sc_v k c (get 0%R slow idx).
Proof. destruct k; [apply get_smap | reflexivity]. Qed.
Lemma sc_prod k (c h v : R) : (sc_h k c h * sc_v k c v = c * (h * v))%R.
Proof. destruct k; cbn [sc_h sc_v]; ring. Qed.
Lemma sc_prod3 k (c h v a : R) : (sc_v k c v * a * sc_h k c h = c * (v * a * h))%R.
Proof. destruct k; cbn [sc_h sc_v]; ring. Qed.
Lemma sc_inv k (c h : R) : (1 / sc_h k c h = sc_i k c (1 / h))%R.
Proof. destruct k; cbn [sc_h sc_i]; [reflexivity|]. unfold Rdiv. rewrite Rinv_mult. ring. Qed.
Lemma sc_inv2 k (c h : R) : (1 / sc_h k c h / sc_h k c h = sc_i2 k c (1 / h / h))%R.
Proof. destruct k; cbn [sc_h sc_i2]; [reflexivity|]. unfold Rdiv. rewrite !Rinv_mult. ring. Qed.

(* the value a block computes for its node: x = tt[previous node], y = tt[node] *)
Definition tnew_x (dx dz vzero xsa zsa dxi dx2i : R) (row : Z) (dzw : R) (sgz sgx jp j : Z) (vref tauv tauev x y : R) : R :=
  delta y tauv (x - t_ana row jp dz dx zsa xsa vzero)%R tauev
    (fst (fst (t_anad row j dz dx zsa xsa vzero))) (snd (fst (t_anad row j dz dx zsa xsa vzero)))
    (snd (t_anad row j dz dx zsa xsa vzero))
    (1 / (dzw * dz))%R dxi (1 / (dzw * dz) / (dzw * dz))%R dx2i vzero vref sgz sgx.
Definition tnew_z (dx dz vzero xsa zsa dzi dz2i : R) (col : Z) (dxw : R) (sgz sgx ip i : Z) (vref taue tauev x y : R) : R :=
  delta y (x - t_ana ip col dz dx zsa xsa vzero)%R taue tauev
    (fst (fst (t_anad i col dz dx zsa xsa vzero))) (snd (fst (t_anad i col dz dx zsa xsa vzero)))
    (snd (t_anad i col dz dx zsa xsa vzero))
    dzi (1 / (dxw * dx))%R dz2i (1 / (dxw * dx) / (dxw * dx))%R vzero vref sgz sgx.
(* ... and what the block does with it: w = fractional distance, tdj = the 1D time along the source line *)
Definition blk_res (w x tdj tnew : R) (tt : arr R) (a b : Z) : arr R :=
  if Rltb 0 w && Rltb x Big then (if Rleb x tnew && Rleb tdj tnew then set tt [a; b] tnew else tt) else tt.

Lemma blk_x_res (dx dz : R) grad (vzero xsa zsa dxi dx2i : R) row (dzw : R) sgz sgx jp j (vref tauv tauev : R) td tt sg :
  fst (blk_x dx dz grad vzero xsa zsa dxi dx2i row dzw sgz sgx jp j vref tauv tauev td tt sg) =
  blk_res dzw (get 0%R tt [row; jp]) (get 0%R td [j])
    (tnew_x dx dz vzero xsa zsa dxi dx2i row dzw sgz sgx jp j vref tauv tauev (get 0%R tt [row; jp]) (get 0%R tt [row; j]))
    tt row j.
Proof.
  unfold blk_x, blk_res, tnew_x. cbv zeta. unfold ngtb, ngeb. change (@nofZ R NumR 0) with 0%R.
  change (@nofZ R NumR 1) with 1%R. numR'.
  destruct (Rltb 0 dzw && Rltb (get 0%R tt [row; jp]) Big); [|reflexivity].
  cbn [fst snd]. match goal with |- fst (if ?g then _ else _) = _ => destruct g end; reflexivity.
Qed.
Lemma blk_z_res (dx dz : R) grad (vzero xsa zsa dzi dz2i : R) col (dxw : R) sgz sgx ip i (vref taue tauev : R) td tt sg :
  fst (blk_z dx dz grad vzero xsa zsa dzi dz2i col dxw sgz sgx ip i vref taue tauev td tt sg) =
  blk_res dxw (get 0%R tt [ip; col]) (get 0%R td [i])
    (tnew_z dx dz vzero xsa zsa dzi dz2i col dxw sgz sgx ip i vref taue tauev (get 0%R tt [ip; col]) (get 0%R tt [i; col]))
    tt i col.
Proof.
  unfold blk_z, blk_res, tnew_z. cbv zeta. unfold ngtb, ngeb. change (@nofZ R NumR 0) with 0%R.
  change (@nofZ R NumR 1) with 1%R. numR'.
  destruct (Rltb 0 dxw && Rltb (get 0%R tt [ip; col]) Big); [|reflexivity].
  cbn [fst snd]. match goal with |- fst (if ?g then _ else _) = _ => destruct g end; reflexivity.
Qed.

(* a z-block value is an x-block value of the transposed problem *)
Lemma tnew_z_as_x (dx dz vzero xsa zsa dzi dz2i : R) col (dxw : R) sgz sgx ip i (vref taue tauev x y : R) :
  tnew_z dx dz vzero xsa zsa dzi dz2i col dxw sgz sgx ip i vref taue tauev x y =
  tnew_x dz dx vzero zsa xsa dzi dz2i col dxw sgx sgz ip i vref taue tauev x y.
Proof.
  unfold tnew_z, tnew_x. rewrite (t_ana_swap ip col), (t_anad_swap i col).
  destruct (t_anad col i dx dz xsa zsa vzero) as [[t0c a1] a2]. cbn [fst snd]. apply delta_swap.
Qed.

Section Scale.
Variables (nz nx : Z) (c : R) (k : skind).
Hypothesis Hc : (0 < c)%R.
Notation St := (arr R * arr R * arr Z)%type.

(* the value computed by a block scales, or is the fall-back value (the old content of the node) on both sides *)
Lemma tnew_x_scale (dx dz vzero xsa zsa dxi dx2i : R) row (dzw : R) sgz sgx jp j (vref tauv tauev x y y' : R) :
  let tn := tnew_x dx dz vzero xsa zsa dxi dx2i row dzw sgz sgx jp j vref tauv tauev x y in
  let tn' := tnew_x (sc_h k c dx) (sc_h k c dz) (sc_v k c vzero) xsa zsa (sc_i k c dxi) (sc_i2 k c dx2i) row dzw
               sgz sgx jp j (sc_v k c vref) (c * tauv) (c * tauev) (c * x) y' in
  tn' = (c * tn)%R \/ (tn = y /\ tn' = y').
Proof.
  intros tn tn'. subst tn tn'. unfold tnew_x. destruct k; cbn [sc_h sc_v sc_i sc_i2].
  - rewrite t_ana_scale_slowness, t_anad_scale_slowness by exact Hc.
    destruct (t_anad row j dz dx zsa xsa vzero) as [[t0c tzc] txc]. cbn [fst snd]. rewrite lin3.
    rewrite (delta_scale_slowness_gen c y y') by exact Hc.
    destruct (Rle_dec _ _) as [P|N]; [left; reflexivity|].
    right. split; [|reflexivity]. rewrite delta_eq. destruct (Rle_dec _ _); [contradiction|reflexivity].
  - rewrite t_ana_scale_length, t_anad_scale_length by lra.
    destruct (t_anad row j dz dx zsa xsa vzero) as [[t0c tzc] txc]. cbn [fst snd]. rewrite lin3.
    replace (1 / (dzw * (c * dz)))%R with (1 / (dzw * dz) / c)%R by (unfold Rdiv; rewrite !Rinv_mult; ring).
    replace (1 / (dzw * dz) / c / (dzw * (c * dz)))%R with (1 / (dzw * dz) / (dzw * dz) / (c * c))%R
      by (unfold Rdiv; rewrite !Rinv_mult; ring).
    rewrite (delta_scale_length_gen c y y') by exact Hc.
    destruct (Rle_dec _ _) as [P|N]; [left; reflexivity|].
    right. split; [|reflexivity]. rewrite delta_eq. destruct (Rle_dec _ _); [contradiction|reflexivity].
Qed.
Lemma tnew_z_scale (dx dz vzero xsa zsa dzi dz2i : R) col (dxw : R) sgz sgx ip i (vref taue tauev x y y' : R) :
  let tn := tnew_z dx dz vzero xsa zsa dzi dz2i col dxw sgz sgx ip i vref taue tauev x y in
  let tn' := tnew_z (sc_h k c dx) (sc_h k c dz) (sc_v k c vzero) xsa zsa (sc_i k c dzi) (sc_i2 k c dz2i) col dxw
               sgz sgx ip i (sc_v k c vref) (c * taue) (c * tauev) (c * x) y' in
  tn' = (c * tn)%R \/ (tn = y /\ tn' = y').
Proof. cbv zeta. rewrite !tnew_z_as_x. apply tnew_x_scale. Qed.

(* the relation between the two grids: entry by entry, multiplied by c or Big on both sides *)
Definition TRel (tt tt' : arr R) : Prop :=
  wf tt /\ wf tt' /\ shape tt = [nz; nx] /\ shape tt' = [nz; nx] /\
  forall i j, 0 <= i < nz -> 0 <= j < nx -> t2rel c (get 0%R tt [i; j]) (get 0%R tt' [i; j]).

Lemma TRel_get tt tt' i j : TRel tt tt' -> 0 <= i < nz -> 0 <= j < nx -> t2rel c (get 0%R tt [i; j]) (get 0%R tt' [i; j]).
Proof. intros (_ & _ & _ & _ & G). apply G. Qed.
Lemma TRel_set tt tt' i j (v v' : R) :
  TRel tt tt' -> 0 <= i < nz -> 0 <= j < nx -> t2rel c v v' -> TRel (set tt [i; j] v) (set tt' [i; j] v').
Proof.
  intros (W & W' & S & S' & G) Hi Hj Hv.
  split; [apply wf_set, W|]. split; [apply wf_set, W'|]. split; [exact S|]. split; [exact S'|].
  intros a b Ha Hb. destruct (list_eq_dec_Z [i; j] [a; b]) as [E|N].
  - injection E as <- <-. rewrite !get_set_same; auto; eapply inb2_true; eauto.
  - rewrite !get_set_other; auto; eapply inb2_true; eauto.
Qed.
(* writing back the value a node already has changes nothing *)
Lemma get_set_self (tt : arr R) i j a b :
  wf tt -> shape tt = [nz; nx] -> 0 <= i < nz -> 0 <= j < nx -> 0 <= a < nz -> 0 <= b < nx ->
  get 0%R (set tt [i; j] (get 0%R tt [i; j])) [a; b] = get 0%R tt [a; b].
Proof.
  intros W S Hi Hj Ha Hb. destruct (list_eq_dec_Z [i; j] [a; b]) as [E|N].
  - injection E as <- <-. apply get_set_same; [exact W | eapply inb2_true; eauto].
  - apply get_set_other; auto; eapply inb2_true; eauto.
Qed.
Lemma TRel_self_l tt tt' i j :
  TRel tt tt' -> 0 <= i < nz -> 0 <= j < nx -> TRel (set tt [i; j] (get 0%R tt [i; j])) tt'.
Proof.
  intros (W & W' & S & S' & G) Hi Hj.
  split; [apply wf_set, W|]. split; [exact W'|]. split; [exact S|]. split; [exact S'|].
  intros a b Ha Hb. rewrite get_set_self; auto.
Qed.
Lemma TRel_self_r tt tt' i j :
  TRel tt tt' -> 0 <= i < nz -> 0 <= j < nx -> TRel tt (set tt' [i; j] (get 0%R tt' [i; j])).
Proof.
  intros (W & W' & S & S' & G) Hi Hj.
  split; [exact W|]. split; [apply wf_set, W'|]. split; [exact S|]. split; [exact S'|].
  intros a b Ha Hb. rewrite get_set_self; auto.
Qed.

Lemma blk_res_sim (w x x' tdj tdj' tnew tnew' : R) tt tt' a b :
  TRel tt tt' -> 0 <= a < nz -> 0 <= b < nx ->
  t2rel c x x' -> ((x < Big)%R <-> (x' < Big)%R) -> tdj' = (c * tdj)%R ->
  (x' = (c * x)%R -> tnew' = (c * tnew)%R \/ (tnew = get 0%R tt [a; b] /\ tnew' = get 0%R tt' [a; b])) ->
  TRel (blk_res w x tdj tnew tt a b) (blk_res w x' tdj' tnew' tt' a b).
Proof.
  intros HR Ha Hb Hx Hiff Htd Htn. unfold blk_res.
  destruct (Rltb 0 w); cbn [andb]; [|exact HR].
  rewrite (Rltb_ext x' Big x Big) by tauto.
  destruct (Rltb x Big) eqn:E2; [|exact HR]. apply Rltb_true in E2.
  destruct Hx as [Ex|[Ex _]]; [|rewrite Ex in E2; lra].
  destruct (Htn Ex) as [Et|[Et Et']].
  - rewrite Et, Ex, Htd, !Rleb_scale by exact Hc.
    destruct (Rleb x tnew && Rleb tdj tnew); [|exact HR]. apply TRel_set; auto. left. reflexivity.
  - rewrite Et, Et'.
    destruct (Rleb x _ && Rleb tdj _), (Rleb x' _ && Rleb tdj' _).
    + apply TRel_set; auto. apply TRel_get; auto.
    + apply TRel_self_l; auto.
    + apply TRel_self_r; auto.
    + exact HR.
Qed.

Lemma blk_x_sim (dx dz : R) grad grad' (vzero xsa zsa dxi dx2i : R) row (dzw : R) sgz sgx jp j (vref tauv tauev : R)
      td td' tt tt' sg sg' :
  TRel tt tt' -> 0 <= row < nz -> 0 <= j < nx -> 0 <= jp < nx ->
  get 0%R td' [j] = (c * get 0%R td [j])%R ->
  ((get 0%R tt [row; jp] < Big)%R <-> (get 0%R tt' [row; jp] < Big)%R) ->
  TRel (fst (blk_x dx dz grad vzero xsa zsa dxi dx2i row dzw sgz sgx jp j vref tauv tauev td tt sg))
       (fst (blk_x (sc_h k c dx) (sc_h k c dz) grad' (sc_v k c vzero) xsa zsa (sc_i k c dxi) (sc_i2 k c dx2i) row dzw
                   sgz sgx jp j (sc_v k c vref) (c * tauv)%R (c * tauev)%R td' tt' sg')).
Proof.
  intros HR Hr Hj Hjp Htd Hiff. rewrite !blk_x_res.
  apply blk_res_sim; auto.
  - apply TRel_get; auto.
  - intros Ex. rewrite Ex. apply tnew_x_scale.
Qed.
Lemma blk_z_sim (dx dz : R) grad grad' (vzero xsa zsa dzi dz2i : R) col (dxw : R) sgz sgx ip i (vref taue tauev : R)
      td td' tt tt' sg sg' :
  TRel tt tt' -> 0 <= col < nx -> 0 <= i < nz -> 0 <= ip < nz ->
  get 0%R td' [i] = (c * get 0%R td [i])%R ->
  ((get 0%R tt [ip; col] < Big)%R <-> (get 0%R tt' [ip; col] < Big)%R) ->
  TRel (fst (blk_z dx dz grad vzero xsa zsa dzi dz2i col dxw sgz sgx ip i vref taue tauev td tt sg))
       (fst (blk_z (sc_h k c dx) (sc_h k c dz) grad' (sc_v k c vzero) xsa zsa (sc_i k c dzi) (sc_i2 k c dz2i) col dxw
                   sgz sgx ip i (sc_v k c vref) (c * taue)%R (c * tauev)%R td' tt' sg')).
Proof.
  intros HR Hr Hj Hjp Htd Hiff. rewrite !blk_z_res.
  apply blk_res_sim; auto.
  - apply TRel_get; auto.
  - intros Ex. rewrite Ex. apply tnew_z_scale.
Qed.

(* ---------- loop bodies ---------- *)
Variables (dx dz : R) (grad grad' : bool) (slow : arr R) (vzero xsa zsa : R) (zsi xsi M : Z).
Hypothesis Hzsi : 0 <= zsi < nz - 1.
Hypothesis Hxsi : 0 <= xsi < nx - 1.
Hypothesis HM : nx <= M /\ nz <= M.

(* states of the two runs: the grids are related, and so is the entry `p` of the scratch line (the last one written) *)
Definition SimS (p : Z) (st st' : St) : Prop :=
  wf (fst (fst st)) /\ wf (fst (fst st')) /\ shape (fst (fst st)) = [M] /\ shape (fst (fst st')) = [M] /\
  get 0%R (fst (fst st')) [p] = (c * get 0%R (fst (fst st)) [p])%R /\
  TRel (ttof st) (ttof st').

(* the same test `< Big` succeeds on both sides *)
Definition BelowIff (tt tt' : arr R) (a b : Z) : Prop :=
  (get 0%R tt [a; b] < Big)%R <-> (get 0%R tt' [a; b] < Big)%R.

Lemma frame_get (Wr : Z -> Z -> Prop) tt tt2 a b :
  Frame nz nx Wr tt tt2 -> 0 <= a < nz -> 0 <= b < nx -> ~ Wr a b -> get 0%R tt2 [a; b] = get 0%R tt [a; b].
Proof. intros (_ & _ & G). apply G. Qed.

Lemma east_body_sim (dzu dzd dxi dx2i : R) j st st' :
  SimS (j - 1) st st' -> 1 <= j < nx ->
  BelowIff (ttof st) (ttof st') (zsi + 1) (j - 1) -> BelowIff (ttof st) (ttof st') zsi (j - 1) ->
  SimS j (east_body dx dz grad slow vzero xsa zsa zsi dzu dzd dxi dx2i j st)
         (east_body (sc_h k c dx) (sc_h k c dz) grad' (sc_slow k c slow) (sc_v k c vzero) xsa zsa zsi dzu dzd
                    (sc_i k c dxi) (sc_i2 k c dx2i) j st').
Proof.
  destruct st as [[td tt] sg], st' as [[td' tt'] sg']. unfold SimS, ttof. cbn [fst snd].
  intros (W & W' & S & S' & Htd & HR) Hj B1 B2.
  cbv beta zeta delta [east_body]. cbn [fst snd]. change (@nofZ R NumR 0) with 0%R.
  rewrite get_sc_slow. set (vref := get 0%R slow [zsi; j - 1]). rewrite Htd.
  set (v := nadd (get 0%R td [j - 1]) (nmul dx vref)).
  set (v' := nadd (c * get 0%R td [(j - 1)%Z])%R (nmul (sc_h k c dx) (sc_v k c vref))).
  assert (Ev : v' = (c * v)%R) by (unfold v', v; numR'; rewrite sc_prod; ring).
  rewrite (get1_set_same td M j v W S ltac:(lia)), (get1_set_same td' M j v' W' S' ltac:(lia)).
  rewrite (get1_set_other td M j (j - 1) v S ltac:(lia) ltac:(lia) ltac:(lia)).
  rewrite (get1_set_other td' M j (j - 1) v' S' ltac:(lia) ltac:(lia) ltac:(lia)). rewrite Htd.
  set (tauv := nsub v _). set (tauev := nsub (get 0%R td [j - 1]) _).
  match goal with |- context [blk_x (sc_h k c dx) _ _ _ _ _ _ _ _ _ _ _ _ _ _ ?tv' ?tev' _ _ _] =>
    replace tv' with (c * tauv)%R by (unfold tauv; rewrite Ev; numR'; rewrite sc_prod3; ring);
    replace tev' with (c * tauev)%R by (unfold tauev; numR'; rewrite sc_prod3; ring) end.
  set (tdn := set td [j] v). set (tdn' := set td' [j] v').
  assert (Htdn : get 0%R tdn' [j] = (c * get 0%R tdn [j])%R).
  { unfold tdn, tdn'. rewrite (get1_set_same td M j v W S ltac:(lia)), (get1_set_same td' M j v' W' S' ltac:(lia)). exact Ev. }
  assert (St : shape tt = [nz; nx]) by (destruct HR as (_ & _ & E & _); exact E).
  assert (St' : shape tt' = [nz; nx]) by (destruct HR as (_ & _ & _ & E & _); exact E).
  pose proof (blk_x_sim dx dz grad grad' vzero xsa zsa dxi dx2i (zsi + 1) dzd 1 1 (j - 1) j vref tauv tauev
                tdn tdn' tt tt' sg sg' HR ltac:(lia) ltac:(lia) ltac:(lia) Htdn B1) as R1.
  pose proof (blk_x_frame nz nx dx dz grad vzero xsa zsa dxi dx2i (zsi + 1) dzd 1 1 (j - 1) j vref tauv tauev
                tdn tt sg St ltac:(lia) ltac:(lia)) as F1.
  pose proof (blk_x_frame nz nx (sc_h k c dx) (sc_h k c dz) grad' (sc_v k c vzero) xsa zsa (sc_i k c dxi) (sc_i2 k c dx2i)
                (zsi + 1) dzd 1 1 (j - 1) j (sc_v k c vref) (c * tauv)%R (c * tauev)%R
                tdn' tt' sg' St' ltac:(lia) ltac:(lia)) as F1'.
  match type of R1 with TRel (fst ?b) (fst ?b') => set (B1v := b) in *; set (B1v' := b') in * end.
  assert (B2' : BelowIff (fst B1v) (fst B1v') zsi (j - 1)).
  { unfold BelowIff. rewrite (frame_get _ _ _ zsi (j - 1) F1), (frame_get _ _ _ zsi (j - 1) F1') by lia. exact B2. }
  pose proof (blk_x_sim dx dz grad grad' vzero xsa zsa dxi dx2i zsi dzu (-1) 1 (j - 1) j vref tauv tauev
                tdn tdn' (fst B1v) (fst B1v') (snd B1v) (snd B1v') R1 ltac:(lia) ltac:(lia) ltac:(lia) Htdn B2') as R2.
  split; [apply wf_set, W|]. split; [apply wf_set, W'|]. split; [exact S|]. split; [exact S'|].
  split; [first [exact Htdn | exact Ev] | exact R2].
Qed.

Lemma west_body_sim (dzu dzd dxi dx2i : R) j st st' :
  SimS (j + 1) st st' -> 0 <= j < nx - 1 ->
  BelowIff (ttof st) (ttof st') (zsi + 1) (j + 1) -> BelowIff (ttof st) (ttof st') zsi (j + 1) ->
  SimS j (west_body dx dz grad slow vzero xsa zsa zsi dzu dzd dxi dx2i j st)
         (west_body (sc_h k c dx) (sc_h k c dz) grad' (sc_slow k c slow) (sc_v k c vzero) xsa zsa zsi dzu dzd
                    (sc_i k c dxi) (sc_i2 k c dx2i) j st').
Proof.
  destruct st as [[td tt] sg], st' as [[td' tt'] sg']. unfold SimS, ttof. cbn [fst snd].
  intros (W & W' & S & S' & Htd & HR) Hj B1 B2.
  cbv beta zeta delta [west_body]. cbn [fst snd]. change (@nofZ R NumR 0) with 0%R.
  rewrite get_sc_slow. set (vref := get 0%R slow [zsi; j]). rewrite Htd.
  set (v := nadd (get 0%R td [j + 1]) (nmul dx vref)).
  set (v' := nadd (c * get 0%R td [(j + 1)%Z])%R (nmul (sc_h k c dx) (sc_v k c vref))).
  assert (Ev : v' = (c * v)%R) by (unfold v', v; numR'; rewrite sc_prod; ring).
  rewrite (get1_set_same td M j v W S ltac:(lia)), (get1_set_same td' M j v' W' S' ltac:(lia)).
  rewrite (get1_set_other td M j (j + 1) v S ltac:(lia) ltac:(lia) ltac:(lia)).
  rewrite (get1_set_other td' M j (j + 1) v' S' ltac:(lia) ltac:(lia) ltac:(lia)). rewrite Htd.
  set (tauv := nsub v _). set (tauev := nsub (get 0%R td [j + 1]) _).
  match goal with |- context [blk_x (sc_h k c dx) _ _ _ _ _ _ _ _ _ _ _ _ _ _ ?tv' ?tev' _ _ _] =>
    replace tv' with (c * tauv)%R by (unfold tauv; rewrite Ev; numR'; rewrite sc_prod3; ring);
    replace tev' with (c * tauev)%R by (unfold tauev; numR'; rewrite sc_prod3; ring) end.
  set (tdn := set td [j] v). set (tdn' := set td' [j] v').
  assert (Htdn : get 0%R tdn' [j] = (c * get 0%R tdn [j])%R).
  { unfold tdn, tdn'. rewrite (get1_set_same td M j v W S ltac:(lia)), (get1_set_same td' M j v' W' S' ltac:(lia)). exact Ev. }
  assert (St : shape tt = [nz; nx]) by (destruct HR as (_ & _ & E & _); exact E).
  assert (St' : shape tt' = [nz; nx]) by (destruct HR as (_ & _ & _ & E & _); exact E).
  pose proof (blk_x_sim dx dz grad grad' vzero xsa zsa dxi dx2i (zsi + 1) dzd 1 (-1) (j + 1) j vref tauv tauev
                tdn tdn' tt tt' sg sg' HR ltac:(lia) ltac:(lia) ltac:(lia) Htdn B1) as R1.
  pose proof (blk_x_frame nz nx dx dz grad vzero xsa zsa dxi dx2i (zsi + 1) dzd 1 (-1) (j + 1) j vref tauv tauev
                tdn tt sg St ltac:(lia) ltac:(lia)) as F1.
  pose proof (blk_x_frame nz nx (sc_h k c dx) (sc_h k c dz) grad' (sc_v k c vzero) xsa zsa (sc_i k c dxi) (sc_i2 k c dx2i)
                (zsi + 1) dzd 1 (-1) (j + 1) j (sc_v k c vref) (c * tauv)%R (c * tauev)%R
                tdn' tt' sg' St' ltac:(lia) ltac:(lia)) as F1'.
  match type of R1 with TRel (fst ?b) (fst ?b') => set (B1v := b) in *; set (B1v' := b') in * end.
  assert (B2' : BelowIff (fst B1v) (fst B1v') zsi (j + 1)).
  { unfold BelowIff. rewrite (frame_get _ _ _ zsi (j + 1) F1), (frame_get _ _ _ zsi (j + 1) F1') by lia. exact B2. }
  pose proof (blk_x_sim dx dz grad grad' vzero xsa zsa dxi dx2i zsi dzu (-1) (-1) (j + 1) j vref tauv tauev
                tdn tdn' (fst B1v) (fst B1v') (snd B1v) (snd B1v') R1 ltac:(lia) ltac:(lia) ltac:(lia) Htdn B2') as R2.
  split; [apply wf_set, W|]. split; [apply wf_set, W'|]. split; [exact S|]. split; [exact S'|].
  split; [first [exact Htdn | exact Ev] | exact R2].
Qed.

Lemma down_body_sim (dxw dxe dzi dz2i : R) i st st' :
  SimS (i - 1) st st' -> 1 <= i < nz ->
  BelowIff (ttof st) (ttof st') (i - 1) (xsi + 1) -> BelowIff (ttof st) (ttof st') (i - 1) xsi ->
  SimS i (down_body dx dz grad slow vzero xsa zsa xsi dxw dxe dzi dz2i i st)
         (down_body (sc_h k c dx) (sc_h k c dz) grad' (sc_slow k c slow) (sc_v k c vzero) xsa zsa xsi dxw dxe
                    (sc_i k c dzi) (sc_i2 k c dz2i) i st').
Proof.
  destruct st as [[td tt] sg], st' as [[td' tt'] sg']. unfold SimS, ttof. cbn [fst snd].
  intros (W & W' & S & S' & Htd & HR) Hi B1 B2.
  cbv beta zeta delta [down_body]. cbn [fst snd]. change (@nofZ R NumR 0) with 0%R.
  rewrite get_sc_slow. set (vref := get 0%R slow [i - 1; xsi]). rewrite Htd.
  set (v := nadd (get 0%R td [i - 1]) (nmul dz vref)).
  set (v' := nadd (c * get 0%R td [(i - 1)%Z])%R (nmul (sc_h k c dz) (sc_v k c vref))).
  assert (Ev : v' = (c * v)%R) by (unfold v', v; numR'; rewrite sc_prod; ring).
  rewrite (get1_set_same td M i v W S ltac:(lia)), (get1_set_same td' M i v' W' S' ltac:(lia)).
  rewrite (get1_set_other td M i (i - 1) v S ltac:(lia) ltac:(lia) ltac:(lia)).
  rewrite (get1_set_other td' M i (i - 1) v' S' ltac:(lia) ltac:(lia) ltac:(lia)). rewrite Htd.
  set (taue := nsub v _). set (tauev := nsub (get 0%R td [i - 1]) _).
  match goal with |- context [blk_z (sc_h k c dx) _ _ _ _ _ _ _ _ _ _ _ _ _ _ ?te' ?tev' _ _ _] =>
    replace te' with (c * taue)%R by (unfold taue; rewrite Ev; numR'; rewrite sc_prod3; ring);
    replace tev' with (c * tauev)%R by (unfold tauev; numR'; rewrite sc_prod3; ring) end.
  set (tdn := set td [i] v). set (tdn' := set td' [i] v').
  assert (Htdn : get 0%R tdn' [i] = (c * get 0%R tdn [i])%R).
  { unfold tdn, tdn'. rewrite (get1_set_same td M i v W S ltac:(lia)), (get1_set_same td' M i v' W' S' ltac:(lia)). exact Ev. }
  assert (St : shape tt = [nz; nx]) by (destruct HR as (_ & _ & E & _); exact E).
  assert (St' : shape tt' = [nz; nx]) by (destruct HR as (_ & _ & _ & E & _); exact E).
  pose proof (blk_z_sim dx dz grad grad' vzero xsa zsa dzi dz2i (xsi + 1) dxe 1 1 (i - 1) i vref taue tauev
                tdn tdn' tt tt' sg sg' HR ltac:(lia) ltac:(lia) ltac:(lia) Htdn B1) as R1.
  pose proof (blk_z_frame nz nx dx dz grad vzero xsa zsa dzi dz2i (xsi + 1) dxe 1 1 (i - 1) i vref taue tauev
                tdn tt sg St ltac:(lia) ltac:(lia)) as F1.
  pose proof (blk_z_frame nz nx (sc_h k c dx) (sc_h k c dz) grad' (sc_v k c vzero) xsa zsa (sc_i k c dzi) (sc_i2 k c dz2i)
                (xsi + 1) dxe 1 1 (i - 1) i (sc_v k c vref) (c * taue)%R (c * tauev)%R
                tdn' tt' sg' St' ltac:(lia) ltac:(lia)) as F1'.
  match type of R1 with TRel (fst ?b) (fst ?b') => set (B1v := b) in *; set (B1v' := b') in * end.
  assert (B2' : BelowIff (fst B1v) (fst B1v') (i - 1) xsi).
  { unfold BelowIff. rewrite (frame_get _ _ _ (i - 1) xsi F1), (frame_get _ _ _ (i - 1) xsi F1') by lia. exact B2. }
  pose proof (blk_z_sim dx dz grad grad' vzero xsa zsa dzi dz2i xsi dxw 1 (-1) (i - 1) i vref taue tauev
                tdn tdn' (fst B1v) (fst B1v') (snd B1v) (snd B1v') R1 ltac:(lia) ltac:(lia) ltac:(lia) Htdn B2') as R2.
  split; [apply wf_set, W|]. split; [apply wf_set, W'|]. split; [exact S|]. split; [exact S'|].
  split; [first [exact Htdn | exact Ev] | exact R2].
Qed.

Lemma up_body_sim (dxw dxe dzi dz2i : R) i st st' :
  SimS (i + 1) st st' -> 0 <= i < nz - 1 ->
  BelowIff (ttof st) (ttof st') (i + 1) (xsi + 1) -> BelowIff (ttof st) (ttof st') (i + 1) xsi ->
  SimS i (up_body dx dz grad slow vzero xsa zsa xsi dxw dxe dzi dz2i i st)
         (up_body (sc_h k c dx) (sc_h k c dz) grad' (sc_slow k c slow) (sc_v k c vzero) xsa zsa xsi dxw dxe
                  (sc_i k c dzi) (sc_i2 k c dz2i) i st').
Proof.
  destruct st as [[td tt] sg], st' as [[td' tt'] sg']. unfold SimS, ttof. cbn [fst snd].
  intros (W & W' & S & S' & Htd & HR) Hi B1 B2.
  cbv beta zeta delta [up_body]. cbn [fst snd]. change (@nofZ R NumR 0) with 0%R.
  rewrite get_sc_slow. set (vref := get 0%R slow [i; xsi]). rewrite Htd.
  set (v := nadd (get 0%R td [i + 1]) (nmul dz vref)).
  set (v' := nadd (c * get 0%R td [(i + 1)%Z])%R (nmul (sc_h k c dz) (sc_v k c vref))).
  assert (Ev : v' = (c * v)%R) by (unfold v', v; numR'; rewrite sc_prod; ring).
  rewrite (get1_set_same td M i v W S ltac:(lia)), (get1_set_same td' M i v' W' S' ltac:(lia)).
  rewrite (get1_set_other td M i (i + 1) v S ltac:(lia) ltac:(lia) ltac:(lia)).
  rewrite (get1_set_other td' M i (i + 1) v' S' ltac:(lia) ltac:(lia) ltac:(lia)). rewrite Htd.
  set (taue := nsub v _). set (tauev := nsub (get 0%R td [i + 1]) _).
  match goal with |- context [blk_z (sc_h k c dx) _ _ _ _ _ _ _ _ _ _ _ _ _ _ ?te' ?tev' _ _ _] =>
    replace te' with (c * taue)%R by (unfold taue; rewrite Ev; numR'; rewrite sc_prod3; ring);
    replace tev' with (c * tauev)%R by (unfold tauev; numR'; rewrite sc_prod3; ring) end.
  set (tdn := set td [i] v). set (tdn' := set td' [i] v').
  assert (Htdn : get 0%R tdn' [i] = (c * get 0%R tdn [i])%R).
  { unfold tdn, tdn'. rewrite (get1_set_same td M i v W S ltac:(lia)), (get1_set_same td' M i v' W' S' ltac:(lia)). exact Ev. }
  assert (St : shape tt = [nz; nx]) by (destruct HR as (_ & _ & E & _); exact E).
  assert (St' : shape tt' = [nz; nx]) by (destruct HR as (_ & _ & _ & E & _); exact E).
  pose proof (blk_z_sim dx dz grad grad' vzero xsa zsa dzi dz2i (xsi + 1) dxe (-1) 1 (i + 1) i vref taue tauev
                tdn tdn' tt tt' sg sg' HR ltac:(lia) ltac:(lia) ltac:(lia) Htdn B1) as R1.
  pose proof (blk_z_frame nz nx dx dz grad vzero xsa zsa dzi dz2i (xsi + 1) dxe (-1) 1 (i + 1) i vref taue tauev
                tdn tt sg St ltac:(lia) ltac:(lia)) as F1.
  pose proof (blk_z_frame nz nx (sc_h k c dx) (sc_h k c dz) grad' (sc_v k c vzero) xsa zsa (sc_i k c dzi) (sc_i2 k c dz2i)
                (xsi + 1) dxe (-1) 1 (i + 1) i (sc_v k c vref) (c * taue)%R (c * tauev)%R
                tdn' tt' sg' St' ltac:(lia) ltac:(lia)) as F1'.
  match type of R1 with TRel (fst ?b) (fst ?b') => set (B1v := b) in *; set (B1v' := b') in * end.
  assert (B2' : BelowIff (fst B1v) (fst B1v') (i + 1) xsi).
  { unfold BelowIff. rewrite (frame_get _ _ _ (i + 1) xsi F1), (frame_get _ _ _ (i + 1) xsi F1') by lia. exact B2. }
  pose proof (blk_z_sim dx dz grad grad' vzero xsa zsa dzi dz2i xsi dxw (-1) (-1) (i + 1) i vref taue tauev
                tdn tdn' (fst B1v) (fst B1v') (snd B1v) (snd B1v') R1 ltac:(lia) ltac:(lia) ltac:(lia) Htdn B2') as R2.
  split; [apply wf_set, W|]. split; [apply wf_set, W'|]. split; [exact S|]. split; [exact S'|].
  split; [first [exact Htdn | exact Ev] | exact R2].
Qed.

(* ---------- loops: lock step, knowing that the states met on the way lead to the final states ---------- *)
Lemma for_list_sim_fin {S1 S2} (Rl : Z -> S1 -> S2 -> Prop) (b1 : Z -> S1 -> S1) (b2 : Z -> S2 -> S2) (f1 f2 : Z -> Z) n :
  forall a s1 s2, Rl a s1 s2 ->
    (forall p m x y, a <= p -> p + 1 + Z.of_nat m = a + Z.of_nat n ->
       for_list (map f1 (upto (p + 1) m)) b1 (b1 (f1 p) x) = for_list (map f1 (upto a n)) b1 s1 ->
       for_list (map f2 (upto (p + 1) m)) b2 (b2 (f2 p) y) = for_list (map f2 (upto a n)) b2 s2 ->
       Rl p x y -> Rl (p + 1) (b1 (f1 p) x) (b2 (f2 p) y)) ->
    Rl (a + Z.of_nat n) (for_list (map f1 (upto a n)) b1 s1) (for_list (map f2 (upto a n)) b2 s2).
Proof.
  induction n as [|n IH]; intros a s1 s2 H0 Hs.
  - cbn. replace (a + 0) with a by lia. exact H0.
  - rewrite upto_S. cbn [map]. rewrite !for_list_cons.
    replace (a + Z.of_nat (S n)) with ((a + 1) + Z.of_nat n) by lia.
    apply IH.
    + apply (Hs a n s1 s2); [lia | lia | rewrite upto_S; reflexivity | rewrite upto_S; reflexivity | exact H0].
    + intros p m x y Hp Hm E1 E2 Hxy. apply (Hs p m x y); [lia | lia | | | exact Hxy].
      * rewrite E1, upto_S. reflexivity.
      * rewrite E2, upto_S. reflexivity.
Qed.

Lemma in_upto x a n : In x (upto a n) <-> a <= x < a + Z.of_nat n.
Proof.
  unfold upto. rewrite in_map_iff. split.
  - intros (q & <- & Hq). apply in_seq in Hq. lia.
  - intros H. exists (Z.to_nat (x - a)). split; [lia|]. apply in_seq. lia.
Qed.

(* what the rest of a loop (iteration p and the m following ones) can modify *)
Lemma rest_frame (body : Z -> St -> St) (Wk : Z -> Z -> Z -> Prop) (f : Z -> Z) p m x :
  shape (ttof x) = [nz; nx] ->
  (forall q s, p <= q < p + 1 + Z.of_nat m -> shape (ttof s) = [nz; nx] ->
     Frame nz nx (Wk (f q)) (ttof s) (ttof (body (f q) s))) ->
  Frame nz nx (fun a b => exists q, p <= q < p + 1 + Z.of_nat m /\ Wk (f q) a b) (ttof x)
    (ttof (for_list (map f (upto (p + 1) m)) body (body (f p) x))).
Proof.
  intros S Hb.
  pose proof (Hb p x ltac:(lia) S) as F1.
  assert (S1 : shape (ttof (body (f p) x)) = [nz; nx]) by (destruct F1 as (E & _); congruence).
  pose proof (for_list_frame nz nx body Wk (map f (upto (p + 1) m)) (body (f p) x) S1) as F2.
  eapply Frame_weaken; [eapply Frame_trans; [exact F1 | apply F2]|].
  - intros k' s Hk Ss. apply in_map_iff in Hk. destruct Hk as (q & <- & Hq). apply in_upto in Hq. apply Hb; [lia | exact Ss].
  - intros a b _ _ [Y|(k' & Hk & Y)]; [exists p; split; [lia | exact Y]|].
    apply in_map_iff in Hk. destruct Hk as (q & <- & Hq). apply in_upto in Hq. exists q. split; [lia | exact Y].
Qed.

(* the caveat, node by node: IF the two entries are related (scaled, or Big on both sides) THEN they are on the same
   side of Big.  (Only the case "scaled" says something.) *)
Definition CondBelow (tt tt' : arr R) (a b : Z) : Prop :=
  t2rel c (get 0%R tt [a; b]) (get 0%R tt' [a; b]) -> BelowIff tt tt' a b.

Lemma cond_below_transfer (W1 W2 : Z -> Z -> Prop) (x y Fx Fy : St) a b :
  Frame nz nx W1 (ttof x) (ttof Fx) -> Frame nz nx W2 (ttof y) (ttof Fy) ->
  0 <= a < nz -> 0 <= b < nx -> ~ W1 a b -> ~ W2 a b ->
  CondBelow (ttof Fx) (ttof Fy) a b -> CondBelow (ttof x) (ttof y) a b.
Proof.
  intros F1 F2 Ha Hb N1 N2. unfold CondBelow, BelowIff.
  rewrite (frame_get _ _ _ a b F1 Ha Hb N1), (frame_get _ _ _ a b F2 Ha Hb N2). tauto.
Qed.
Lemma below_step (W1 W2 : Z -> Z -> Prop) (x y Fx Fy : St) a b :
  Frame nz nx W1 (ttof x) (ttof Fx) -> Frame nz nx W2 (ttof y) (ttof Fy) ->
  0 <= a < nz -> 0 <= b < nx -> ~ W1 a b -> ~ W2 a b ->
  CondBelow (ttof Fx) (ttof Fy) a b -> TRel (ttof x) (ttof y) -> BelowIff (ttof x) (ttof y) a b.
Proof.
  intros F1 F2 Ha Hb N1 N2 HC HR. apply (cond_below_transfer W1 W2 x y Fx Fy a b F1 F2 Ha Hb N1 N2 HC).
  apply TRel_get; assumption.
Qed.
Lemma SimS_TRel p st st' : SimS p st st' -> TRel (ttof st) (ttof st').
Proof. intros (_ & _ & _ & _ & _ & HR). exact HR. Qed.

Lemma SimS_shapes p st st' : SimS p st st' -> shape (ttof st) = [nz; nx] /\ shape (ttof st') = [nz; nx].
Proof. intros (_ & _ & _ & _ & _ & (_ & _ & E & E' & _)). split; assumption. Qed.

(* ---------- east ---------- *)
Lemma east_phase_sim (dzu dzd dxe : R) st st' :
  wf (fst (fst st)) -> wf (fst (fst st')) -> shape (fst (fst st)) = [M] -> shape (fst (fst st')) = [M] ->
  TRel (ttof st) (ttof st') ->
  let F := east_phase dx dz grad nx slow vzero xsa xsi zsa zsi dzu dzd dxe st in
  let F' := east_phase (sc_h k c dx) (sc_h k c dz) grad' nx (sc_slow k c slow) (sc_v k c vzero) xsa xsi zsa zsi
              dzu dzd dxe st' in
  (forall a b, OnRows zsi a -> xsi + 1 <= b < nx - 1 -> CondBelow (ttof F) (ttof F') a b) ->
  SimS (nx - 1) F F'.
Proof.
  intros W W' S S' HR F F' Hbig. subst F F'. unfold east_phase in *. cbv zeta in *.
  change (ndiv (nofZ 1) (sc_h k c dx)) with (1 / sc_h k c dx)%R in *.
  change (ndiv (1 / sc_h k c dx)%R (sc_h k c dx)) with (1 / sc_h k c dx / sc_h k c dx)%R in *.
  rewrite sc_inv2, sc_inv in *.
  change (ndiv (nofZ 1) dx) with (1 / dx)%R in *. change (ndiv (1 / dx)%R dx) with (1 / dx / dx)%R in *.
  rewrite pyrange_up in *. set (n := Z.to_nat (nx - (xsi + 2))) in *.
  rewrite <- (map_id (upto (xsi + 2) n)) in *.
  replace (nx - 1) with (xsi + 2 + Z.of_nat n - 1) by lia.
  match goal with |- SimS _ (for_list _ ?b1 ?s1) (for_list _ ?b2 ?s2) =>
    apply (for_list_sim_fin (fun p => SimS (p - 1)) b1 b2 (fun x => x) (fun x => x) n (xsi + 2) s1 s2) end.
  - unfold SimS, ttof. cbn [fst snd].
    split; [apply wf_set, W|]. split; [apply wf_set, W'|]. split; [exact S|]. split; [exact S'|].
    split; [|exact HR]. replace (xsi + 2 - 1) with (xsi + 1) by lia.
    rewrite (get1_set_same _ M (xsi + 1) _ W S ltac:(lia)), (get1_set_same _ M (xsi + 1) _ W' S' ltac:(lia)).
    numR'. apply sc_prod3.
  - intros p m x y Hp Hm E1 E2 Hxy. destruct (SimS_shapes _ _ _ Hxy) as [Sx Sy].
    replace (p + 1 - 1) with p by lia.
    match type of E1 with _ = ?FF => match type of E2 with _ = ?FF' =>
      assert (Fr : Frame nz nx (fun a b => exists q, p <= q < p + 1 + Z.of_nat m /\ (OnRows zsi a /\ b = q)) (ttof x) (ttof FF))
        by (rewrite <- E1; apply (rest_frame _ (fun q a b => OnRows zsi a /\ b = q) (fun q => q)); [exact Sx|];
            intros q s Hq Ss; apply east_body_frame; [exact Hzsi | exact Ss | lia]);
      assert (Fr' : Frame nz nx (fun a b => exists q, p <= q < p + 1 + Z.of_nat m /\ (OnRows zsi a /\ b = q)) (ttof y) (ttof FF'))
        by (rewrite <- E2; apply (rest_frame _ (fun q a b => OnRows zsi a /\ b = q) (fun q => q)); [exact Sy|];
            intros q s Hq Ss; apply east_body_frame; [exact Hzsi | exact Ss | lia])
    end end.
    apply east_body_sim; [exact Hxy | lia | |].
    + eapply (below_step _ _ x y _ _ (zsi + 1) (p - 1) Fr Fr'); try lia;
        [intros (q & Hq & _ & E); lia | intros (q & Hq & _ & E); lia | apply Hbig; [left; reflexivity | lia] | exact (SimS_TRel _ _ _ Hxy)].
    + eapply (below_step _ _ x y _ _ zsi (p - 1) Fr Fr'); try lia;
        [intros (q & Hq & _ & E); lia | intros (q & Hq & _ & E); lia | apply Hbig; [right; reflexivity | lia] | exact (SimS_TRel _ _ _ Hxy)].
Qed.

(* ---------- west ---------- *)
Lemma west_phase_sim (dzu dzd dxw : R) st st' :
  wf (fst (fst st)) -> wf (fst (fst st')) -> shape (fst (fst st)) = [M] -> shape (fst (fst st')) = [M] ->
  TRel (ttof st) (ttof st') ->
  let F := west_phase dx dz grad slow vzero xsa xsi zsa zsi dzu dzd dxw st in
  let F' := west_phase (sc_h k c dx) (sc_h k c dz) grad' (sc_slow k c slow) (sc_v k c vzero) xsa xsi zsa zsi
              dzu dzd dxw st' in
  (forall a b, OnRows zsi a -> 1 <= b <= xsi -> CondBelow (ttof F) (ttof F') a b) ->
  exists p, SimS p F F'.
Proof.
  intros W W' S S' HR F F' Hbig. subst F F'. unfold west_phase in *. cbv zeta in *.
  change (ndiv (nofZ 1) (sc_h k c dx)) with (1 / sc_h k c dx)%R in *.
  change (ndiv (1 / sc_h k c dx)%R (sc_h k c dx)) with (1 / sc_h k c dx / sc_h k c dx)%R in *.
  rewrite sc_inv2, sc_inv in *.
  change (ndiv (nofZ 1) dx) with (1 / dx)%R in *. change (ndiv (1 / dx)%R dx) with (1 / dx / dx)%R in *.
  rewrite (pyrange_down (xsi - 1) (xsi - 1)) in *. replace (xsi - 1 - (xsi - 1)) with 0 in * by lia.
  set (n := Z.to_nat (xsi - 1 + 1)) in *.
  exists (xsi - (0 + Z.of_nat n)).
  match goal with |- SimS _ (for_list _ ?b1 ?s1) (for_list _ ?b2 ?s2) =>
    apply (for_list_sim_fin (fun q => SimS (xsi - q)) b1 b2 (fun i => xsi - 1 - i) (fun i => xsi - 1 - i) n 0 s1 s2) end.
  - unfold SimS, ttof. cbn [fst snd].
    split; [apply wf_set, W|]. split; [apply wf_set, W'|]. split; [exact S|]. split; [exact S'|].
    split; [|exact HR]. replace (xsi - 0) with xsi by lia.
    rewrite (get1_set_same _ M xsi _ W S ltac:(lia)), (get1_set_same _ M xsi _ W' S' ltac:(lia)).
    numR'. apply sc_prod3.
  - intros p m x y Hp Hm E1 E2 Hxy. destruct (SimS_shapes _ _ _ Hxy) as [Sx Sy].
    match type of E1 with _ = ?FF => match type of E2 with _ = ?FF' =>
      assert (Fr : Frame nz nx (fun a b => exists q, p <= q < p + 1 + Z.of_nat m /\ (OnRows zsi a /\ b = xsi - 1 - q)) (ttof x) (ttof FF))
        by (rewrite <- E1; apply (rest_frame _ (fun q a b => OnRows zsi a /\ b = q) (fun i => xsi - 1 - i)); [exact Sx|];
            intros q s Hq Ss; apply west_body_frame; [exact Hzsi | exact Ss | lia]);
      assert (Fr' : Frame nz nx (fun a b => exists q, p <= q < p + 1 + Z.of_nat m /\ (OnRows zsi a /\ b = xsi - 1 - q)) (ttof y) (ttof FF'))
        by (rewrite <- E2; apply (rest_frame _ (fun q a b => OnRows zsi a /\ b = q) (fun i => xsi - 1 - i)); [exact Sy|];
            intros q s Hq Ss; apply west_body_frame; [exact Hzsi | exact Ss | lia])
    end end.
    replace (xsi - (p + 1)) with (xsi - 1 - p) by lia.
    apply west_body_sim; [replace (xsi - 1 - p + 1) with (xsi - p) by lia; exact Hxy | lia | |].
    + eapply (below_step _ _ x y _ _ (zsi + 1) (xsi - 1 - p + 1) Fr Fr'); try lia;
        [intros (q & Hq & _ & E); lia | intros (q & Hq & _ & E); lia | apply Hbig; [left; reflexivity | lia] | exact (SimS_TRel _ _ _ Hxy)].
    + eapply (below_step _ _ x y _ _ zsi (xsi - 1 - p + 1) Fr Fr'); try lia;
        [intros (q & Hq & _ & E); lia | intros (q & Hq & _ & E); lia | apply Hbig; [right; reflexivity | lia] | exact (SimS_TRel _ _ _ Hxy)].
Qed.

(* ---------- down ---------- *)
Lemma down_phase_sim (dxw dxe dzd : R) st st' :
  wf (fst (fst st)) -> wf (fst (fst st')) -> shape (fst (fst st)) = [M] -> shape (fst (fst st')) = [M] ->
  TRel (ttof st) (ttof st') ->
  let F := down_phase dx dz grad nz slow vzero xsa xsi zsa zsi dxw dxe dzd st in
  let F' := down_phase (sc_h k c dx) (sc_h k c dz) grad' nz (sc_slow k c slow) (sc_v k c vzero) xsa xsi zsa zsi
              dxw dxe dzd st' in
  (forall a b, zsi + 1 <= a < nz - 1 -> OnCols xsi b -> CondBelow (ttof F) (ttof F') a b) ->
  exists p, SimS p F F'.
Proof.
  intros W W' S S' HR F F' Hbig. subst F F'. unfold down_phase in *. cbv zeta in *.
  change (ndiv (nofZ 1) (sc_h k c dz)) with (1 / sc_h k c dz)%R in *.
  change (ndiv (1 / sc_h k c dz)%R (sc_h k c dz)) with (1 / sc_h k c dz / sc_h k c dz)%R in *.
  rewrite sc_inv2, sc_inv in *.
  change (ndiv (nofZ 1) dz) with (1 / dz)%R in *. change (ndiv (1 / dz)%R dz) with (1 / dz / dz)%R in *.
  rewrite pyrange_up in *. set (n := Z.to_nat (nz - (zsi + 2))) in *.
  rewrite <- (map_id (upto (zsi + 2) n)) in *.
  exists (zsi + 2 + Z.of_nat n - 1).
  match goal with |- SimS _ (for_list _ ?b1 ?s1) (for_list _ ?b2 ?s2) =>
    apply (for_list_sim_fin (fun p => SimS (p - 1)) b1 b2 (fun x => x) (fun x => x) n (zsi + 2) s1 s2) end.
  - unfold SimS, ttof. cbn [fst snd].
    split; [apply wf_set, W|]. split; [apply wf_set, W'|]. split; [exact S|]. split; [exact S'|].
    split; [|exact HR]. replace (zsi + 2 - 1) with (zsi + 1) by lia.
    rewrite (get1_set_same _ M (zsi + 1) _ W S ltac:(lia)), (get1_set_same _ M (zsi + 1) _ W' S' ltac:(lia)).
    numR'. apply sc_prod3.
  - intros p m x y Hp Hm E1 E2 Hxy. destruct (SimS_shapes _ _ _ Hxy) as [Sx Sy].
    replace (p + 1 - 1) with p by lia.
    match type of E1 with _ = ?FF => match type of E2 with _ = ?FF' =>
      assert (Fr : Frame nz nx (fun a b => exists q, p <= q < p + 1 + Z.of_nat m /\ (a = q /\ OnCols xsi b)) (ttof x) (ttof FF))
        by (rewrite <- E1; apply (rest_frame _ (fun q a b => a = q /\ OnCols xsi b) (fun q => q)); [exact Sx|];
            intros q s Hq Ss; apply down_body_frame; [exact Hxsi | exact Ss | lia]);
      assert (Fr' : Frame nz nx (fun a b => exists q, p <= q < p + 1 + Z.of_nat m /\ (a = q /\ OnCols xsi b)) (ttof y) (ttof FF'))
        by (rewrite <- E2; apply (rest_frame _ (fun q a b => a = q /\ OnCols xsi b) (fun q => q)); [exact Sy|];
            intros q s Hq Ss; apply down_body_frame; [exact Hxsi | exact Ss | lia])
    end end.
    apply down_body_sim; [exact Hxy | lia | |].
    + eapply (below_step _ _ x y _ _ (p - 1) (xsi + 1) Fr Fr'); try lia;
        [intros (q & Hq & E & _); lia | intros (q & Hq & E & _); lia | apply Hbig; [lia | left; reflexivity] | exact (SimS_TRel _ _ _ Hxy)].
    + eapply (below_step _ _ x y _ _ (p - 1) xsi Fr Fr'); try lia;
        [intros (q & Hq & E & _); lia | intros (q & Hq & E & _); lia | apply Hbig; [lia | right; reflexivity] | exact (SimS_TRel _ _ _ Hxy)].
Qed.

(* ---------- up ---------- *)
Lemma up_phase_sim (dxw dxe dzu : R) st st' :
  wf (fst (fst st)) -> wf (fst (fst st')) -> shape (fst (fst st)) = [M] -> shape (fst (fst st')) = [M] ->
  TRel (ttof st) (ttof st') ->
  let F := up_phase dx dz grad slow vzero xsa xsi zsa zsi dxw dxe dzu st in
  let F' := up_phase (sc_h k c dx) (sc_h k c dz) grad' (sc_slow k c slow) (sc_v k c vzero) xsa xsi zsa zsi
              dxw dxe dzu st' in
  (forall a b, 1 <= a <= zsi -> OnCols xsi b -> CondBelow (ttof F) (ttof F') a b) ->
  exists p, SimS p F F'.
Proof.
  intros W W' S S' HR F F' Hbig. subst F F'. unfold up_phase in *. cbv zeta in *.
  change (ndiv (nofZ 1) (sc_h k c dz)) with (1 / sc_h k c dz)%R in *.
  change (ndiv (1 / sc_h k c dz)%R (sc_h k c dz)) with (1 / sc_h k c dz / sc_h k c dz)%R in *.
  rewrite sc_inv2, sc_inv in *.
  change (ndiv (nofZ 1) dz) with (1 / dz)%R in *. change (ndiv (1 / dz)%R dz) with (1 / dz / dz)%R in *.
  rewrite (pyrange_down (zsi - 1) (zsi - 1)) in *. replace (zsi - 1 - (zsi - 1)) with 0 in * by lia.
  set (n := Z.to_nat (zsi - 1 + 1)) in *.
  exists (zsi - (0 + Z.of_nat n)).
  match goal with |- SimS _ (for_list _ ?b1 ?s1) (for_list _ ?b2 ?s2) =>
    apply (for_list_sim_fin (fun q => SimS (zsi - q)) b1 b2 (fun i => zsi - 1 - i) (fun i => zsi - 1 - i) n 0 s1 s2) end.
  - unfold SimS, ttof. cbn [fst snd].
    split; [apply wf_set, W|]. split; [apply wf_set, W'|]. split; [exact S|]. split; [exact S'|].
    split; [|exact HR]. replace (zsi - 0) with zsi by lia.
    rewrite (get1_set_same _ M zsi _ W S ltac:(lia)), (get1_set_same _ M zsi _ W' S' ltac:(lia)).
    numR'. apply sc_prod3.
  - intros p m x y Hp Hm E1 E2 Hxy. destruct (SimS_shapes _ _ _ Hxy) as [Sx Sy].
    match type of E1 with _ = ?FF => match type of E2 with _ = ?FF' =>
      assert (Fr : Frame nz nx (fun a b => exists q, p <= q < p + 1 + Z.of_nat m /\ (a = zsi - 1 - q /\ OnCols xsi b)) (ttof x) (ttof FF))
        by (rewrite <- E1; apply (rest_frame _ (fun q a b => a = q /\ OnCols xsi b) (fun i => zsi - 1 - i)); [exact Sx|];
            intros q s Hq Ss; apply up_body_frame; [exact Hxsi | exact Ss | lia]);
      assert (Fr' : Frame nz nx (fun a b => exists q, p <= q < p + 1 + Z.of_nat m /\ (a = zsi - 1 - q /\ OnCols xsi b)) (ttof y) (ttof FF'))
        by (rewrite <- E2; apply (rest_frame _ (fun q a b => a = q /\ OnCols xsi b) (fun i => zsi - 1 - i)); [exact Sy|];
            intros q s Hq Ss; apply up_body_frame; [exact Hxsi | exact Ss | lia])
    end end.
    replace (zsi - (p + 1)) with (zsi - 1 - p) by lia.
    apply up_body_sim; [replace (zsi - 1 - p + 1) with (zsi - p) by lia; exact Hxy | lia | |].
    + eapply (below_step _ _ x y _ _ (zsi - 1 - p + 1) (xsi + 1) Fr Fr'); try lia;
        [intros (q & Hq & E & _); lia | intros (q & Hq & E & _); lia | apply Hbig; [lia | left; reflexivity] | exact (SimS_TRel _ _ _ Hxy)].
    + eapply (below_step _ _ x y _ _ (zsi - 1 - p + 1) xsi Fr Fr'); try lia;
        [intros (q & Hq & E & _); lia | intros (q & Hq & E & _); lia | apply Hbig; [lia | right; reflexivity] | exact (SimS_TRel _ _ _ Hxy)].
Qed.

(* ---------- the whole initialisation ---------- *)
Lemma t_ana_sc i j : t_ana i j (sc_h k c dz) (sc_h k c dx) zsa xsa (sc_v k c vzero) = (c * t_ana i j dz dx zsa xsa vzero)%R.
Proof. destruct k; cbn [sc_h sc_v]; [apply t_ana_scale_slowness | apply t_ana_scale_length; lra]. Qed.

Lemma corner_fst' (dx0 dz0 vz0 : R) g i j (tt tg : arr R) :
  fst (corner dx0 dz0 g vz0 xsa zsa i j tt tg) = set tt [i; j] (t_ana i j dz0 dx0 zsa xsa vz0).
Proof. unfold corner. cbv zeta. cbn [fst]. rewrite t_anad_fst. reflexivity. Qed.

Lemma corners_sim tt tt' tg tg' :
  TRel tt tt' ->
  TRel (fst (init_corners dx dz grad vzero xsa xsi zsa zsi tt tg))
       (fst (init_corners (sc_h k c dx) (sc_h k c dz) grad' (sc_v k c vzero) xsa xsi zsa zsi tt' tg')).
Proof.
  intros HR. unfold init_corners. cbv zeta. rewrite !corner_fst', !t_ana_sc.
  repeat (apply TRel_set; [| lia | lia | left; reflexivity]). exact HR.
Qed.

Theorem init_scale tt tt' tg tg' sg sg' :
  M = Z.max nz nx ->
  TRel tt tt' ->
  let r := fteik2d_p2 dx dz grad 2 nx nz slow tt tg sg vzero xsa xsi zsa zsi in
  let r' := fteik2d_p2 (sc_h k c dx) (sc_h k c dz) grad' 2 nx nz (sc_slow k c slow) tt' tg' sg' (sc_v k c vzero)
              xsa xsi zsa zsi in
  (forall i j, 0 <= i < nz -> 0 <= j < nx -> CondBelow (fst (fst r)) (fst (fst r')) i j) ->
  TRel (fst (fst r)) (fst (fst r')).
Proof.
  intros EM HR r r' Hbig. subst r r'. rewrite !fteik2d_p2_decompose in *. change (2 =? 2) with true in *.
  cbv iota zeta in Hbig |- *. cbn [fst snd] in Hbig |- *. rewrite <- EM in *.
  set (dzu := nabs (nsub zsa (nofZ zsi))) in *. set (dzd := nsub (nofZ 1) dzu) in *.
  set (dxw := nabs (nsub xsa (nofZ xsi))) in *. set (dxe := nsub (nofZ 1) dxw) in *.
  pose proof (corners_sim tt tt' tg tg' HR) as R0.
  set (c0 := init_corners dx dz grad vzero xsa xsi zsa zsi tt tg) in *.
  set (c0' := init_corners (sc_h k c dx) (sc_h k c dz) grad' (sc_v k c vzero) xsa xsi zsa zsi tt' tg') in *.
  assert (W0 : wf (full [M] (@Big R NumR))) by (apply wf_full; repeat constructor; lia).
  set (st1 := east_phase dx dz grad nx slow vzero xsa xsi zsa zsi dzu dzd dxe (full [M] Big, fst c0, sg)) in *.
  set (st1' := east_phase (sc_h k c dx) (sc_h k c dz) grad' nx (sc_slow k c slow) (sc_v k c vzero) xsa xsi zsa zsi
                 dzu dzd dxe (full [M] Big, fst c0', sg')) in *.
  set (st2 := west_phase dx dz grad slow vzero xsa xsi zsa zsi dzu dzd dxw st1) in *.
  set (st2' := west_phase (sc_h k c dx) (sc_h k c dz) grad' (sc_slow k c slow) (sc_v k c vzero) xsa xsi zsa zsi
                 dzu dzd dxw st1') in *.
  set (st3 := down_phase dx dz grad nz slow vzero xsa xsi zsa zsi dxw dxe dzd
                (fill (fst (fst st2)) Big, snd (fst st2), snd st2)) in *.
  set (st3' := down_phase (sc_h k c dx) (sc_h k c dz) grad' nz (sc_slow k c slow) (sc_v k c vzero) xsa xsi zsa zsi
                 dxw dxe dzd (fill (fst (fst st2')) Big, snd (fst st2'), snd st2')) in *.
  set (st4 := up_phase dx dz grad slow vzero xsa xsi zsa zsi dxw dxe dzu st3) in *.
  set (st4' := up_phase (sc_h k c dx) (sc_h k c dz) grad' (sc_slow k c slow) (sc_v k c vzero) xsa xsi zsa zsi
                 dxw dxe dzu st3') in *.
  change (forall i j, 0 <= i < nz -> 0 <= j < nx -> CondBelow (ttof st4) (ttof st4') i j) in Hbig.
  change (TRel (ttof st4) (ttof st4')).
  (* shapes, to be able to speak about what the later phases leave alone *)
  assert (Sc : shape (fst c0) = [nz; nx] /\ shape (fst c0') = [nz; nx])
    by (destruct R0 as (_ & _ & E & E' & _); split; assumption).
  destruct Sc as [Sc Sc'].
  assert (FE : forall s : St, shape (ttof s) = [nz; nx] -> forall dx0 dz0 g sl vz,
            shape (ttof (east_phase dx0 dz0 g nx sl vz xsa xsi zsa zsi dzu dzd dxe s)) = [nz; nx]).
  { intros s Ss dx0 dz0 g sl vz. destruct (east_phase_frame nz nx dx0 dz0 g sl vz xsa zsa zsi xsi Hzsi Hxsi dzu dzd dxe s Ss) as (E & _).
    congruence. }
  pose proof (FE (full [M] Big, fst c0, sg) Sc dx dz grad slow vzero) as S1. fold st1 in S1.
  pose proof (FE (full [M] Big, fst c0', sg') Sc' (sc_h k c dx) (sc_h k c dz) grad' (sc_slow k c slow) (sc_v k c vzero)) as S1'.
  fold st1' in S1'.
  pose proof (west_phase_frame nz nx dx dz grad slow vzero xsa zsa zsi xsi Hzsi Hxsi dzu dzd dxw st1 S1) as F2. fold st2 in F2.
  pose proof (west_phase_frame nz nx (sc_h k c dx) (sc_h k c dz) grad' (sc_slow k c slow) (sc_v k c vzero) xsa zsa zsi xsi
                Hzsi Hxsi dzu dzd dxw st1' S1') as F2'. fold st2' in F2'.
  assert (S2 : shape (ttof st2) = [nz; nx]) by (destruct F2 as (E & _); congruence).
  assert (S2' : shape (ttof st2') = [nz; nx]) by (destruct F2' as (E & _); congruence).
  pose proof (down_phase_frame nz nx dx dz grad slow vzero xsa zsa zsi xsi Hzsi Hxsi dxw dxe dzd
                (fill (fst (fst st2)) Big, snd (fst st2), snd st2) S2) as F3. fold st3 in F3.
  pose proof (down_phase_frame nz nx (sc_h k c dx) (sc_h k c dz) grad' (sc_slow k c slow) (sc_v k c vzero) xsa zsa zsi xsi Hzsi Hxsi
                dxw dxe dzd (fill (fst (fst st2')) Big, snd (fst st2'), snd st2') S2') as F3'. fold st3' in F3'.
  change (ttof (fill (fst (fst st2)) Big, snd (fst st2), snd st2)) with (ttof st2) in F3.
  change (ttof (fill (fst (fst st2')) Big, snd (fst st2'), snd st2')) with (ttof st2') in F3'.
  assert (S3 : shape (ttof st3) = [nz; nx]) by (destruct F3 as (E & _); congruence).
  assert (S3' : shape (ttof st3') = [nz; nx]) by (destruct F3' as (E & _); congruence).
  pose proof (up_phase_frame nz nx dx dz grad slow vzero xsa zsa zsi xsi Hzsi Hxsi dxw dxe dzu st3 S3) as F4. fold st4 in F4.
  pose proof (up_phase_frame nz nx (sc_h k c dx) (sc_h k c dz) grad' (sc_slow k c slow) (sc_v k c vzero) xsa zsa zsi xsi
                Hzsi Hxsi dxw dxe dzu st3' S3') as F4'. fold st4' in F4'.
  pose proof (Frame_trans _ _ _ _ _ _ _ F3 F4) as F34. pose proof (Frame_trans _ _ _ _ _ _ _ F3' F4') as F34'.
  pose proof (Frame_trans _ _ _ _ _ _ _ F2 F34) as F234. pose proof (Frame_trans _ _ _ _ _ _ _ F2' F34') as F234'.
  cbv beta in F34, F34', F234, F234'.
  (* east *)
  assert (R1 : SimS (nx - 1) st1 st1').
  { apply east_phase_sim; cbn [fst snd]; auto. unfold ttof; cbn [fst snd]. fold st1 st1'.
    intros a b Ha Hb.
    apply (cond_below_transfer _ _ st1 st1' st4 st4' a b F234 F234'); unfold OnRows, OnCols in *;
      try lia; try (intuition lia); apply Hbig; lia. }
  destruct R1 as (W1 & W1' & Sd1 & Sd1' & _ & R1).
  (* west *)
  assert (R2 : exists p, SimS p st2 st2').
  { apply west_phase_sim; auto. fold st2 st2'.
    intros a b Ha Hb.
    apply (cond_below_transfer _ _ st2 st2' st4 st4' a b F34 F34'); unfold OnRows, OnCols in *;
      try lia; try (intuition lia); apply Hbig; lia. }
  destruct R2 as (p2 & W2 & W2' & Sd2 & Sd2' & _ & R2).
  (* down *)
  assert (R3 : exists p, SimS p st3 st3').
  { apply down_phase_sim; cbn [fst snd].
    - unfold fill. rewrite Sd2. apply wf_full. repeat constructor; lia.
    - unfold fill. rewrite Sd2'. apply wf_full. repeat constructor; lia.
    - unfold fill. rewrite Sd2. reflexivity.
    - unfold fill. rewrite Sd2'. reflexivity.
    - exact R2.
    - fold st3 st3'. intros a b Ha Hb.
      apply (cond_below_transfer _ _ st3 st3' st4 st4' a b F4 F4'); unfold OnRows, OnCols in *;
        try lia; try (intuition lia); apply Hbig; lia. }
  destruct R3 as (p3 & W3 & W3' & Sd3 & Sd3' & _ & R3).
  (* up *)
  assert (R4 : exists p, SimS p st4 st4').
  { apply up_phase_sim; auto. fold st4 st4'. intros a b Ha Hb. unfold OnCols in Hb. apply Hbig; lia. }
  destruct R4 as (p4 & _ & _ & _ & _ & _ & R4). exact R4.
Qed.
End Scale.

(* ---------- C05, statements ---------- *)
(* the relation between the time grids of the two unit systems, spelled out *)
Lemma TRel_spelled_out nz nx c tt tt' :
  TRel nz nx c tt tt' <->
  wf tt /\ wf tt' /\ shape tt = [nz; nx] /\ shape tt' = [nz; nx] /\
  forall i j, 0 <= i < nz -> 0 <= j < nx ->
    get 0%R tt' [i; j] = (c * get 0%R tt [i; j])%R \/ (get 0%R tt [i; j] = Big /\ get 0%R tt' [i; j] = Big).
Proof. reflexivity. Qed.

(* Slowness unit: `slow` and `vzero` multiplied by c > 0.  From related grids the initialisation produces related
   grids, PROVIDED no time crosses the absolute placeholder Big: every node whose two entries are related is below
   Big in both runs or in neither (Hbig; for the nodes the loops test). *)
Theorem fteik2d_init_scale_slowness nz nx c dx dz grad grad' slow tt tt' tg tg' sg sg' vzero xsa zsa zsi xsi :
  (0 < c)%R -> 0 <= zsi < nz - 1 -> 0 <= xsi < nx - 1 ->
  TRel nz nx c tt tt' ->
  let r := fteik2d_p2 dx dz grad 2 nx nz slow tt tg sg vzero xsa xsi zsa zsi in
  let r' := fteik2d_p2 dx dz grad' 2 nx nz (smap c slow) tt' tg' sg' (c * vzero)%R xsa xsi zsa zsi in
  forall Hbig : (forall i j, 0 <= i < nz -> 0 <= j < nx ->
                   t2rel c (get 0%R (fst (fst r)) [i; j]) (get 0%R (fst (fst r')) [i; j]) ->
                   ((get 0%R (fst (fst r)) [i; j] < Big)%R <-> (get 0%R (fst (fst r')) [i; j] < Big)%R)),
  TRel nz nx c (fst (fst r)) (fst (fst r')).
Proof.
  intros Hc Hzsi Hxsi HR r r' Hbig.
  exact (init_scale nz nx c Slowness Hc dx dz grad grad' slow vzero xsa zsa zsi xsi (Z.max nz nx) Hzsi Hxsi
           ltac:(lia) tt tt' tg tg' sg sg' eq_refl HR Hbig).
Qed.

(* Length unit: dz, dx multiplied by c > 0 (zsa, xsa are in grid units and stay) *)
Theorem fteik2d_init_scale_length nz nx c dx dz grad grad' slow tt tt' tg tg' sg sg' vzero xsa zsa zsi xsi :
  (0 < c)%R -> 0 <= zsi < nz - 1 -> 0 <= xsi < nx - 1 ->
  TRel nz nx c tt tt' ->
  let r := fteik2d_p2 dx dz grad 2 nx nz slow tt tg sg vzero xsa xsi zsa zsi in
  let r' := fteik2d_p2 (c * dx)%R (c * dz)%R grad' 2 nx nz slow tt' tg' sg' vzero xsa xsi zsa zsi in
  forall Hbig : (forall i j, 0 <= i < nz -> 0 <= j < nx ->
                   t2rel c (get 0%R (fst (fst r)) [i; j]) (get 0%R (fst (fst r')) [i; j]) ->
                   ((get 0%R (fst (fst r)) [i; j] < Big)%R <-> (get 0%R (fst (fst r')) [i; j] < Big)%R)),
  TRel nz nx c (fst (fst r)) (fst (fst r')).
Proof.
  intros Hc Hzsi Hxsi HR r r' Hbig.
  exact (init_scale nz nx c Length Hc dx dz grad grad' slow vzero xsa zsa zsi xsi (Z.max nz nx) Hzsi Hxsi
           ltac:(lia) tt tt' tg tg' sg sg' eq_refl HR Hbig).
Qed.

(* for c >= 1 the caveat can be put on the reference run alone: no entry below Big is pushed to Big or beyond *)
Lemma caveat_ge1 (c x x' : R) :
  (1 <= c)%R -> ((x < Big)%R -> (c * x < Big)%R) -> t2rel c x x' -> ((x < Big)%R <-> (x' < Big)%R).
Proof.
  intros Hc Hx [->|[-> ->]]; [|tauto]. split; [exact Hx|].
  intros H. destruct (Rlt_dec x Big) as [Y|N]; [exact Y|]. exfalso.
  change (@Big R NumR) with 100000%R in *. nra.
Qed.
Corollary fteik2d_init_scale_slowness_ge1 nz nx c dx dz grad grad' slow tt tt' tg tg' sg sg' vzero xsa zsa zsi xsi :
  (1 <= c)%R -> 0 <= zsi < nz - 1 -> 0 <= xsi < nx - 1 ->
  TRel nz nx c tt tt' ->
  let r := fteik2d_p2 dx dz grad 2 nx nz slow tt tg sg vzero xsa xsi zsa zsi in
  let r' := fteik2d_p2 dx dz grad' 2 nx nz (smap c slow) tt' tg' sg' (c * vzero)%R xsa xsi zsa zsi in
  forall Hbig : (forall i j, 0 <= i < nz -> 0 <= j < nx ->
                   (get 0%R (fst (fst r)) [i; j] < Big)%R -> (c * get 0%R (fst (fst r)) [i; j] < Big)%R),
  TRel nz nx c (fst (fst r)) (fst (fst r')).
Proof.
  intros Hc Hzsi Hxsi HR r r' Hbig. apply fteik2d_init_scale_slowness; auto; [lra|].
  intros i j Hi Hj. apply caveat_ge1; [exact Hc | apply Hbig; assumption].
Qed.
Corollary fteik2d_init_scale_length_ge1 nz nx c dx dz grad grad' slow tt tt' tg tg' sg sg' vzero xsa zsa zsi xsi :
  (1 <= c)%R -> 0 <= zsi < nz - 1 -> 0 <= xsi < nx - 1 ->
  TRel nz nx c tt tt' ->
  let r := fteik2d_p2 dx dz grad 2 nx nz slow tt tg sg vzero xsa xsi zsa zsi in
  let r' := fteik2d_p2 (c * dx)%R (c * dz)%R grad' 2 nx nz slow tt' tg' sg' vzero xsa xsi zsa zsi in
  forall Hbig : (forall i j, 0 <= i < nz -> 0 <= j < nx ->
                   (get 0%R (fst (fst r)) [i; j] < Big)%R -> (c * get 0%R (fst (fst r)) [i; j] < Big)%R),
  TRel nz nx c (fst (fst r)) (fst (fst r')).
Proof.
  intros Hc Hzsi Hxsi HR r r' Hbig. apply fteik2d_init_scale_length; auto; [lra|].
  intros i j Hi Hj. apply caveat_ge1; [exact Hc | apply Hbig; assumption].
Qed.

(* ---------- non-vacuity of the scaling theorems: the 4 x 4 example above, c = 2 ---------- *)
Section ScaleExample.
Let slow0 : arr R := full [3; 3] 1%R.
Let tt0 : arr R := full [4; 4] Big.
Let tg0 : arr R := full [4; 4; 2] 0%R.
Let sg0 : arr Z := full [4; 4; 2] 0.
Let r0 := fteik2d_p2 2%R 1%R true 2 4 4 slow0 tt0 tg0 sg0 1%R (3 / 2)%R 1 (5 / 4)%R 1.

Lemma ex_tt0_rel : TRel 4 4 2 tt0 tt0.
Proof.
  assert (W : wf tt0) by (apply wf_full; repeat constructor; lia).
  split; [exact W|]. split; [exact W|]. split; [reflexivity|]. split; [reflexivity|].
  intros i j Hi Hj. right. unfold tt0. rewrite get_full.
  - split; reflexivity.
  - cbn [inb_sh]. repeat (apply andb_true_intro; split); first [reflexivity | apply Z.leb_le; lia | apply Z.ltb_lt; lia].
Qed.

Lemma ex_r0_values i j : 0 <= i < 4 -> 0 <= j < 4 ->
  get 0%R (fst (fst r0)) [i; j] = t_ana i j 1%R 2%R (5 / 4)%R (3 / 2)%R 1%R \/ get 0%R (fst (fst r0)) [i; j] = Big.
Proof.
  intros Hi Hj. unfold r0.
  apply (fteik2d_init_homogeneous_exact_or_Big 4 4 1 2 true slow0 tt0 tg0 sg0 1 (5 / 4) (3 / 2) 1 1); try lra; try lia.
  - intros a b Ha Hb. unfold slow0. apply get_full. cbn [inb_sh].
    repeat (apply andb_true_intro; split); first [reflexivity | apply Z.leb_le; lia | apply Z.ltb_lt; lia].
  - apply wf_full; repeat constructor; lia.
  - reflexivity.
  - intros a b Ha Hb. unfold tt0. apply get_full. cbn [inb_sh].
    repeat (apply andb_true_intro; split); first [reflexivity | apply Z.leb_le; lia | apply Z.ltb_lt; lia].
Qed.

Lemma ex_t_ana_small i j : 0 <= i < 4 -> 0 <= j < 4 -> (2 * t_ana i j 1%R 2%R (5 / 4)%R (3 / 2)%R 1%R < Big)%R.
Proof.
  intros Hi Hj. rewrite t_ana_exact, Rmult_1_l.
  assert (0 <= IZR i <= 3)%R by (split; apply IZR_le; lia).
  assert (0 <= IZR j <= 3)%R by (split; apply IZR_le; lia).
  change (@Big R NumR) with 100000%R.
  assert (sqrt ((1 * (IZR i - 5 / 4)) ^ 2 + (2 * (IZR j - 3 / 2)) ^ 2) < 50000)%R; [|lra].
  rewrite <- (sqrt_square 50000) by lra. apply sqrt_lt_1_alt.
  destruct H as [H1 H2], H0 as [H3 H4].
  pose proof (Rle_0_sqr (IZR i - 5 / 4)) as A1. pose proof (Rle_0_sqr (IZR j - 3 / 2)) as B1. unfold Rsqr in A1, B1.
  assert (A2 : ((IZR i - 5 / 4) * (IZR i - 5 / 4) <= 4)%R) by nra.
  assert (B2 : ((IZR j - 3 / 2) * (IZR j - 3 / 2) <= 4)%R) by nra.
  split; nra.
Qed.

Lemma ex_caveat i j : 0 <= i < 4 -> 0 <= j < 4 ->
  (get 0%R (fst (fst r0)) [i; j] < Big)%R -> (2 * get 0%R (fst (fst r0)) [i; j] < Big)%R.
Proof.
  intros Hi Hj Hlt. destruct (ex_r0_values i j Hi Hj) as [E|E]; rewrite E in *; [|lra].
  apply ex_t_ana_small; assumption.
Qed.

Example fteik2d_init_scale_slowness_ex :
  let r' := fteik2d_p2 2%R 1%R true 2 4 4 (smap 2 slow0) tt0 tg0 sg0 (2 * 1)%R (3 / 2)%R 1 (5 / 4)%R 1 in
  TRel 4 4 2 (fst (fst r0)) (fst (fst r')) /\
  get 0%R (fst (fst r')) [2; 3] = (2 * t_ana 2 3 1%R 2%R (5 / 4)%R (3 / 2)%R 1%R)%R.
Proof.
  intros r'.
  assert (HR : TRel 4 4 2 (fst (fst r0)) (fst (fst r'))).
  { apply fteik2d_init_scale_slowness_ge1; try lra; try lia; [exact ex_tt0_rel | exact ex_caveat]. }
  split; [exact HR|].
  destruct fteik2d_init_homogeneous_exact_ex as (E23 & _). fold slow0 tt0 tg0 sg0 in E23. fold r0 in E23.
  destruct (TRel_get 4 4 2 _ _ 2 3 HR ltac:(lia) ltac:(lia)) as [E|[E _]].
  - rewrite E, E23. reflexivity.
  - exfalso. rewrite E23 in E. pose proof (ex_t_ana_small 2 3 ltac:(lia) ltac:(lia)) as Hs.
    rewrite E in Hs. change (@Big R NumR) with 100000%R in Hs. lra.
Qed.

Example fteik2d_init_scale_length_ex :
  let r' := fteik2d_p2 (2 * 2)%R (2 * 1)%R true 2 4 4 slow0 tt0 tg0 sg0 1%R (3 / 2)%R 1 (5 / 4)%R 1 in
  TRel 4 4 2 (fst (fst r0)) (fst (fst r')) /\
  get 0%R (fst (fst r')) [2; 3] = (2 * t_ana 2 3 1%R 2%R (5 / 4)%R (3 / 2)%R 1%R)%R.
Proof.
  intros r'.
  assert (HR : TRel 4 4 2 (fst (fst r0)) (fst (fst r'))).
  { apply fteik2d_init_scale_length_ge1; try lra; try lia; [exact ex_tt0_rel | exact ex_caveat]. }
  split; [exact HR|].
  destruct fteik2d_init_homogeneous_exact_ex as (E23 & _). fold slow0 tt0 tg0 sg0 in E23. fold r0 in E23.
  destruct (TRel_get 4 4 2 _ _ 2 3 HR ltac:(lia) ltac:(lia)) as [E|[E _]].
  - rewrite E, E23. reflexivity.
  - exfalso. rewrite E23 in E. pose proof (ex_t_ana_small 2 3 ltac:(lia) ltac:(lia)) as Hs.
    rewrite E in Hs. change (@Big R NumR) with 100000%R in Hs. lra.
Qed.
End ScaleExample.

(* ========================================================================================== *)
Print Assumptions fteik2d_init_homogeneous_exact.
Print Assumptions fteik2d_init_homogeneous_exact_or_Big.
Print Assumptions fteik2d_init_homogeneous_signs.
Print Assumptions fteik2d_init_homogeneous_exact_ex.
Print Assumptions FloatExample.homogeneous_pattern_binary64.
Print Assumptions fteik2d_init_scale_slowness.
Print Assumptions fteik2d_init_scale_length.
Print Assumptions fteik2d_init_scale_slowness_ge1.
Print Assumptions fteik2d_init_scale_length_ge1.
Print Assumptions fteik2d_init_scale_slowness_ex.
Print Assumptions fteik2d_init_scale_length_ex.
