(* Memory safety of the a posteriori 2D ray tracer (gen/Ray2d.v, gen/FteikCommon.v; source
   /repo/fteikpy/_fteik/_ray2d.py, _fteik/_common.py), and two exact-arithmetic facts about `shrink`.

     1. shrink_ok_true_gen / shrink_ok_true    every obligation of `shrink` holds as soon as
                                               shape pcur = shape delta (any numeric type, no law)
     2. ray2d_core_ok_true, ray2d_ok_true, ray2d_1_ok_true
                                               subscripts of _ray2d_core / _ray2d / ray2d (single point)
     3. (RaySafety3d.v)
     4. shrink_range, shrink_attained, vertex_on_grid_line_2d   (T := R)

   Method for 2: `while_ok_inv` (Hoare rule for the obligation loop), an invariant `SInv` on the loop state,
   a walk through the obligation term of the body that keeps the equation of every let-bound value
   (`rwalk`), and a second walk through the value term of the body for the preservation of `SInv`. *)
From Coq Require Import ZArith List Bool Lia Reals Lra PrimFloat.
From FT.lib Require Import Num Arr ArrLemmas NumArr.
From FT.gen Require Import Common Interp2d FteikCommon Ray2d.
From FT.proofs Require Import SafetyTools SafetyInterp Ray2dProofs.
From FT.proofs Require NumFLaws.
Import ListNotations.
Open Scope Z_scope.

(* ------------------------------------------------------------------------------------------ *)
(* 1. shrink                                                                                    *)
(* ------------------------------------------------------------------------------------------ *)
Lemma shape_eqb_refl (s : list Z) : shape_eqb s s = true.
Proof. induction s as [|a s IH]; [reflexivity|]. cbn [shape_eqb]. rewrite Z.eqb_refl. exact IH. Qed.

(* number of selected positions of a mask *)
Fixpoint ctrue (m : list bool) : nat :=
  match m with [] => 0%nat | b :: t => ((if b then 1 else 0) + ctrue t)%nat end.

Lemma mask_list_length {A} (l : list A) : forall m,
  (length m <= length l)%nat -> length (mask_list l m) = ctrue m.
Proof.
  induction l as [|a l IH]; intros [|b m] Hm; simpl in *; try lia; try reflexivity.
  destruct b; simpl; rewrite IH by lia; reflexivity.
Qed.

(* `.any()` is true exactly when the selection is non-empty *)
Lemma existsb_ctrue (m : list bool) : existsb (fun b => b) m = true <-> (0 < ctrue m)%nat.
Proof.
  induction m as [|b m IH]; simpl; [split; [discriminate|lia]|].
  destruct b; simpl; [split; [lia|reflexivity]|exact IH].
Qed.

Lemma aany_amask_nonempty {A} (a : arr A) (m : arr bool) :
  (length (dat m) <= length (dat a))%nat -> (aany m = true <-> 0 < alen (amask a m)).
Proof.
  intros Hl. unfold aany, alen, amask, of_list. cbn [dat].
  rewrite (mask_list_length (dat a) (dat m) Hl), existsb_ctrue. lia.
Qed.

Lemma zipw_length {A B C} (f : A -> B -> C) : forall l1 l2,
  length (zipw f l1 l2) = Nat.min (length l1) (length l2).
Proof. induction l1 as [|a l1 IH]; intros [|b l2]; simpl; auto. Qed.

Lemma shape_amask_eq {A B} (a : arr A) (b : arr B) (m : arr bool) :
  (length (dat m) <= length (dat a))%nat -> (length (dat m) <= length (dat b))%nat ->
  shape (amask a m) = shape (amask b m).
Proof. intros Ha Hb. unfold amask, of_list. cbn [shape]. rewrite !mask_list_length by assumption. reflexivity. Qed.

Section Shrink.
Context {T : Type} `{Num T}.

(* the selected quotients  (p[m] - b[m]) / d[m]  of shrink *)
Definition quot (p b d : arr T) (m : arr bool) : arr T :=
  amap2 ndiv (amap2 nsub (amask p m) (amask b m)) (amask d m).

Lemma quot_obligations (p b d : arr T) (m : arr bool) :
  (length (dat m) <= length (dat p))%nat -> (length (dat m) <= length (dat b))%nat ->
  (length (dat m) <= length (dat d))%nat ->
  shape_eqb (shape (amask p m)) (shape (amask b m)) = true /\
  shape_eqb (shape (amap2 nsub (amask p m) (amask b m))) (shape (amask d m)) = true /\
  (aany m = true -> (0 <? alen (quot p b d m)) = true).
Proof.
  intros Hp Hb Hd. split; [|split].
  - rewrite (shape_amask_eq p b m Hp Hb). apply shape_eqb_refl.
  - change (shape (amap2 nsub (amask p m) (amask b m))) with (shape (amask p m)).
    rewrite (shape_amask_eq p d m Hp Hd). apply shape_eqb_refl.
  - intros Ha. apply Z.ltb_lt. unfold quot, alen, amap2, amask, of_list. cbn [dat].
    rewrite !zipw_length, !mask_list_length by assumption.
    apply existsb_ctrue in Ha. lia.
Qed.

(* lengths of the two masks *)
Lemma shrink_mask_lengths (pcur delta lower upper : arr T) :
  let tmp := amap2 nsub pcur delta in
  let maskl := amap2 nltb tmp lower in
  let masku := amap2 ngtb tmp upper in
  ((length (dat maskl) <= length (dat pcur))%nat /\ (length (dat maskl) <= length (dat lower))%nat /\
   (length (dat maskl) <= length (dat delta))%nat) /\
  ((length (dat masku) <= length (dat pcur))%nat /\ (length (dat masku) <= length (dat upper))%nat /\
   (length (dat masku) <= length (dat delta))%nat).
Proof. cbv zeta. unfold amap2. cbn [dat]. rewrite !zipw_length. lia. Qed.

(* All obligations of `shrink`: the only one that depends on the arguments is the first
   (`pcur - delta` needs equal shapes); the masked selections have equal lengths by construction and are
   non-empty exactly when `.any()` is true. *)
Theorem shrink_ok_true_gen (pcur delta lower upper : arr T) :
  shape pcur = shape delta -> FteikCommon.shrink_ok true false pcur delta lower upper = true.
Proof.
  intros Hs.
  destruct (shrink_mask_lengths pcur delta lower upper) as [(L1 & L2 & L3) (U1 & U2 & U3)].
  cbv zeta in L1, L2, L3, U1, U2, U3.
  destruct (quot_obligations pcur lower delta _ L1 L2 L3) as (QL1 & QL2 & QL3).
  destruct (quot_obligations pcur upper delta _ U1 U2 U3) as (QU1 & QU2 & QU3).
  unfold quot in QL3, QU3.
  unfold FteikCommon.shrink_ok. cbv zeta. unfold obI, obD.
  rewrite Hs, shape_eqb_refl, QL1, QL2, QU1, QU2. cbn [andb].
  destruct (aany (amap2 nltb (amap2 nsub pcur delta) lower)) eqn:El;
  destruct (aany (amap2 ngtb (amap2 nsub pcur delta) upper)) eqn:Eu; cbn [andb negb];
    rewrite ?(QL3 eq_refl), ?(QU3 eq_refl); reflexivity.
Qed.

Corollary shrink_ok_true (pcur delta lower upper : arr T) (n : Z) :
  1 <= n -> shape pcur = [n] -> shape delta = [n] -> shape lower = [n] -> shape upper = [n] ->
  FteikCommon.shrink_ok true false pcur delta lower upper = true.
Proof. intros _ Sp Sd _ _. apply shrink_ok_true_gen. congruence. Qed.
End Shrink.

(* ------------------------------------------------------------------------------------------ *)
(* generic rules for the obligation loop                                                        *)
(* ------------------------------------------------------------------------------------------ *)
Section WhileOk.
Context {S : Type}.
Variables (cond cond_ok : S -> bool) (body : S -> ctl S) (body_ok : S -> bool).

Lemma while_ok_inv (P : S -> Prop) :
  (forall s, P s -> cond_ok s = true) ->
  (forall s, P s -> cond s = true -> body_ok s = true) ->
  (forall s s', P s -> cond s = true -> body s = Next s' -> P s') ->
  forall fuel s, P s -> while_ok fuel cond cond_ok body body_ok s = true.
Proof.
  intros Hc Hb Hn. induction fuel as [|f IH]; intros s Hs; [reflexivity|].
  cbn [while_ok]. rewrite (Hc s Hs). cbn [andb].
  destruct (cond s) eqn:Ec; [|reflexivity]. rewrite (Hb s Hs Ec). cbn [andb].
  destruct (body s) as [s'|s'|e] eqn:Eb; try reflexivity. apply IH. exact (Hn s s' Hs Ec Eb).
Qed.

(* the loop and the code after it *)
Lemma loop_ok (P : S -> Prop) (K : S -> bool) fuel s0 :
  P s0 ->
  (forall s, P s -> cond_ok s = true) ->
  (forall s, P s -> body_ok s = true) ->
  (forall s s', P s -> body s = Next s' \/ body s = Brk s' -> P s') ->
  (forall s, P s -> K s = true) ->
  while_ok fuel cond cond_ok body body_ok s0 && res_ok (while_fuel fuel cond body s0) K = true.
Proof.
  intros H0 Hc Hb Hn HK. apply andb_true_intro. split.
  - apply (while_ok_inv P); auto. intros s s' Hs _ Eb. apply (Hn s s' Hs). left. exact Eb.
  - destruct (while_fuel fuel cond body s0) as [s1| |] eqn:Ew; try reflexivity. cbn [res_ok].
    apply HK. apply (while_fuel_inv cond body P P) with (4 := H0) (5 := Ew); auto.
    + intros s s' Hs _ Eb. apply (Hn s s' Hs). left. exact Eb.
    + intros s s' Hs _ Eb. apply (Hn s s' Hs). right. exact Eb.
Qed.
End WhileOk.

(* result of one execution of the body, whatever the control outcome *)
Definition post {S} (Q : S -> Prop) (r : ctl S) : Prop :=
  match r with Next s' => Q s' | Brk s' => Q s' | Exc _ => True end.
Lemma post_elim {S} (Q : S -> Prop) (r : ctl S) s' : post Q r -> r = Next s' \/ r = Brk s' -> Q s'.
Proof. intros Hp [-> | ->]; exact Hp. Qed.

Lemma inb_sub1_true {A} (a : arr A) n0 l i : shape a = n0 :: l -> 0 <= i < n0 -> inb_sub a [i] = true.
Proof. intros E Hi. unfold inb_sub. rewrite E. cbn [inb_prefix].
  repeat (apply andb_true_intro; split); first [ destruct l; reflexivity | apply Z.leb_le; lia | apply Z.ltb_lt; lia ]. Qed.

(* ------------------------------------------------------------------------------------------ *)
(* walking through an obligation term, keeping the equation of every let-bound value            *)
(* ------------------------------------------------------------------------------------------ *)
Ltac rwalk hook leaf :=
  lazymatch goal with
  | |- true = true => reflexivity
  | |- andb (while_ok _ _ _ _ _ _) _ = true => leaf
  | |- andb _ _ = true => apply andb_true_intro; split; rwalk hook leaf
  | |- (let x := ?v in @?F x) = true =>
      let tv := type of v in
      lazymatch tv with
      | _ -> bool =>
          refine (let_fun_true v F _ _);
          [ intro; cbv beta; rwalk hook leaf
          | let k := fresh "k" in let Hk := fresh "Hk" in intros k Hk; cbv beta; rwalk hook leaf ]
      | _ =>
          let x := fresh "x" in let Hx := fresh "Hx" in
          refine (let_eq_true v F _); intros x Hx; cbv beta;
          lazymatch v with
          | fst _ => cbn [fst snd] in Hx; subst x
          | snd _ => cbn [fst snd] in Hx; subst x
          | _ => hook x Hx
          end;
          rwalk hook leaf
      end
  | |- (if ?c then ?a else ?b) = true =>
      let c' := eval cbn [andb negb orb] in c in
      lazymatch c' with
      | true => change (a = true); rwalk hook leaf
      | false => change (b = true); rwalk hook leaf
      | _ => let E := fresh "E" in destruct c eqn:E; rwalk hook leaf
      end
  | |- obD false _ = true => reflexivity
  | Hk : forall u, ?k u = true |- ?k _ = true => apply Hk
  | |- _ => leaf
  end.

Lemma let_post {A S} (Q : S -> Prop) (v : A) (F : A -> ctl S) :
  (forall x, x = v -> post Q (F x)) -> post Q (let x := v in F x).
Proof. intros Hf. exact (Hf v eq_refl). Qed.

(* the same walk through a value term of type `ctl S` (continuations stay local definitions) *)
Ltac vwalk hook leaf :=
  lazymatch goal with
  | |- post ?Q (let x := ?v in @?F x) =>
      let tv := type of v in
      lazymatch tv with
      | _ -> _ => pull_let; vwalk hook leaf
      | _ =>
          let x := fresh "x" in let Hx := fresh "Hx" in
          refine (let_post Q v F _); intros x Hx; cbv beta;
          lazymatch v with
          | fst _ => cbn [fst snd] in Hx; subst x
          | snd _ => cbn [fst snd] in Hx; subst x
          | _ => hook x Hx
          end;
          vwalk hook leaf
      end
  | |- post ?Q (if ?c then ?a else ?b) =>
      let c' := eval cbn [andb negb orb] in c in
      lazymatch c' with
      | true => change (post Q a); vwalk hook leaf
      | false => change (post Q b); vwalk hook leaf
      | _ => let E := fresh "E" in destruct c eqn:E; vwalk hook leaf
      end
  | |- post _ (Brk _) => leaf
  | |- post _ (Next _) => leaf
  | |- post _ (Exc _) => exact I
  | |- post _ (?f _) => head_unfold; vwalk hook leaf
  | |- _ => leaf
  end.

Ltac let_intro x Hx :=
  lazymatch goal with
  | |- (let y := ?v in @?F y) = true => refine (let_eq_true v F _); intros x Hx; cbv beta
  end.

(* ------------------------------------------------------------------------------------------ *)
(* 2. the 2D core                                                                               *)
(* ------------------------------------------------------------------------------------------ *)
Section Safe2.
Context {T : Type} `{Num T}.

(* v is not below the first entry of the axis: what makes `searchsorted(ax, v, "right") - 1 >= 0` *)
Definition ge0 (ax : arr T) (v : T) : Prop := nltb v (get (nofZ 0) ax [0]) = false.

(* the two order laws used (both hold for R and, NaN included, for binary64) *)
Class RayLaws : Prop := {
  rl_le_lt : le_lt_law (T := T);
  rl_irrefl : forall a : T, nltb a a = false }.

(* no entry of the axis is below the first one (any ascending axis); only needed with honor_grid *)
Definition axis_min (ax : arr T) (n : Z) : Prop :=
  forall k, 0 <= k < n -> ge0 ax (get (nofZ 0) ax [k]).

Lemma clamp_ge0 (ax : arr T) (a hi : T) :
  (forall a : T, nltb a a = false) -> ge0 ax hi -> ge0 ax (pymin2 (pymax2 a (get (nofZ 0) ax [0])) hi).
Proof.
  intros Irr Hhi. unfold ge0, pymin2, pymax2 in *.
  destruct (nltb a (get (nofZ 0) ax [0])) eqn:E1;
    match goal with |- context [if ?c then _ else _] => destruct c eqn:E2 end; auto; congruence.
Qed.

Lemma cell_index_range (ax : arr T) n q :
  axisn ax n -> 1 <= n -> ge0 ax q -> 0 <= searchsorted_right ax q - 1 <= n - 1.
Proof.
  intros [S L] Hn Hq. pose proof (ssr_upper ax n q L ltac:(lia)) as Hu.
  assert (1 <= searchsorted_right ax q); [|lia].
  unfold searchsorted_right. apply (SafetyTools.ssr_list_pos (dat ax) q (nofZ 0)).
  - intros E. rewrite E in L. simpl in L. lia.
  - unfold ge0, get, flat in Hq. rewrite S in Hq. exact Hq.
Qed.

Lemma vec2_len (p : arr T) : vec2 p -> length (dat p) = 2%nat.
Proof. intros [_ L]. exact L. Qed.
Lemma vec2_full (v : T) : vec2 (full [2] v).
Proof. split; reflexivity. Qed.

Lemma clamp2_facts (z x p : arr T) (zhi xhi : T) :
  (forall a : T, nltb a a = false) -> vec2 p -> ge0 z zhi -> ge0 x xhi ->
  let p2 := set p [0] (pymin2 (pymax2 (get (nofZ 0) p [0]) (get (nofZ 0) z [0])) zhi) in
  let p3 := set p2 [1] (pymin2 (pymax2 (get (nofZ 0) p2 [1]) (get (nofZ 0) x [0])) xhi) in
  vec2 p3 /\ ge0 z (get (nofZ 0) p3 [0]) /\ ge0 x (get (nofZ 0) p3 [1]).
Proof.
  intros Irr Hp Hz Hx p2 p3. split; [apply vec2_set, vec2_set, Hp|].
  unfold p3, p2.
  match goal with |- context [set (set p [0] ?a) [1] ?b] =>
    destruct (get_set2 (nofZ 0) p a b Hp) as [G0 G1]; rewrite G0, G1 end.
  split; apply clamp_ge0; assumption.
Qed.

(* the magnetism loop body keeps, or snaps to a cell boundary, component ix *)
Definition magnet_body (lo up : arr T) (body : Z -> arr T -> arr T) : Prop :=
  forall ix q, body ix q = q \/ body ix q = set q [ix] (get (nofZ 0) lo [ix]) \/
               body ix q = set q [ix] (get (nofZ 0) up [ix]).

Lemma magnet_facts (z x lo up : arr T) body p :
  magnet_body lo up body -> vec2 p ->
  ge0 z (get (nofZ 0) p [0]) -> ge0 x (get (nofZ 0) p [1]) ->
  ge0 z (get (nofZ 0) lo [0]) -> ge0 z (get (nofZ 0) up [0]) ->
  ge0 x (get (nofZ 0) lo [1]) -> ge0 x (get (nofZ 0) up [1]) ->
  let p' := for_list (pyrange 0 2 1) body p in
  vec2 p' /\ ge0 z (get (nofZ 0) p' [0]) /\ ge0 x (get (nofZ 0) p' [1]).
Proof.
  intros Hb Hp P0 P1 L0 U0 L1 U1 p'. split.
  - apply vec2_for_list; [|exact Hp]. intros ix q Hq.
    destruct (Hb ix q) as [E|[E|E]]; rewrite E; [exact Hq|apply vec2_set; exact Hq|apply vec2_set; exact Hq].
  - destruct (magnet_for_list lo up body p Hb Hp) as [M0 M1]. fold p' in M0, M1. unfold magnet_of in M0, M1.
    split; [destruct M0 as [E|[E|E]]|destruct M1 as [E|[E|E]]]; rewrite E; assumption.
Qed.

(* the cell boundaries recomputed at a vertex are axis entries *)
Lemma cell_bounds_ge0 (ax : arr T) n q i :
  axis_min ax n -> 0 <= i <= n - 1 ->
  ge0 ax (if neqb q (get (nofZ 0) ax [i]) then get (nofZ 0) ax [Z.max (i - 1) 0] else get (nofZ 0) ax [i]) /\
  ge0 ax (get (nofZ 0) ax [Z.min (i + 1) (n - 1)]).
Proof. intros Hm Hi. split; [destruct (neqb _ _)|]; apply Hm; lia. Qed.
Lemma cell_lo_ge0 (ax : arr T) n q i :
  axis_min ax n -> 0 <= i <= n - 1 ->
  ge0 ax (if neqb q (get (nofZ 0) ax [i]) then get (nofZ 0) ax [Z.max (i - 1) 0] else get (nofZ 0) ax [i]).
Proof. intros Hm Hi. apply (cell_bounds_ge0 ax n q i Hm Hi). Qed.
Lemma cell_hi_ge0 (ax : arr T) n i :
  axis_min ax n -> 0 <= i <= n - 1 -> ge0 ax (get (nofZ 0) ax [Z.min (i + 1) (n - 1)]).
Proof. intros Hm Hi. apply (cell_bounds_ge0 ax n (nofZ 0) i Hm Hi). Qed.
End Safe2.

Section Core2Safe.
Context {T : Type} `{Num T}.
Context {Laws : RayLaws (T := T)}.

Lemma interp2d_1_ok_true (z x v q : arr T) (fval : T) nz nx :
  axisn z nz -> axisn x nx -> 2 <= nz -> 2 <= nx -> shape v = [nz; nx] -> shape q = [2] ->
  Interp2d.interp2d_1_ok true false z x v q fval = true.
Proof.
  intros Az Ax Hz Hx Sv Sq. unfold Interp2d.interp2d_1_ok.
  rewrite (interp2d_ok_true rl_le_lt z x v _ _ fval nz nx Az Ax Hz Hx Sv).
  unfold obI. rewrite !(inb1_true q 2) by (auto; lia). reflexivity.
Qed.

Lemma hull_ge0 (ax : arr T) (v : T) : nleb (get (nofZ 0) ax [0]) v = true -> ge0 ax v.
Proof. intros Hle. apply rl_le_lt. exact Hle. Qed.

(* ---- facts about let-bound values (forward chaining while walking) ---- *)
Ltac solve_v2 :=
  repeat first [ assumption | apply vec2_set | apply vec2_of_list | apply vec2_full
               | apply vec2_amap2 | apply len2_amap | apply vec2_len ].

Ltac shape_fact x Hx :=
  let S := fresh "S" in
  pose proof (f_equal shape Hx) as S;
  cbn [shape set set_sub amap2 amap of_list full length Z.of_nat Pos.of_succ_nat Pos.succ] in S;
  repeat match type of S with
         | _ = ?rhs => match rhs with context [shape ?a] =>
                         match goal with Ha : shape a = _ |- _ => rewrite Ha in S end end
         end;
  try (lazymatch type of S with _ = shape _ => clear S end).

Ltac rhook z x lo up x0 Hx :=
  lazymatch type of Hx with _ = ?y => tryif is_var y then subst x0 else
  lazymatch type of x0 with
  | arr _ =>
      try (assert (vec2 x0) by (rewrite Hx; solve_v2));
      shape_fact x0 Hx;
      (* the two clamps *)
      try (lazymatch type of Hx with
           | _ = set ?a [1] (pymin2 (pymax2 _ _) _) =>
               match goal with
               | Ha : a = set _ [0] (pymin2 (pymax2 _ _) _) |- _ =>
                   let F := fresh "F" in
                   assert (F : vec2 x0 /\ ge0 z (get (nofZ 0) x0 [0]) /\ ge0 x (get (nofZ 0) x0 [1]))
                     by (rewrite Hx, Ha; apply clamp2_facts; [apply rl_irrefl | assumption ..]);
                   destruct F as (_ & ? & ?)
               end
           end);
      (* grid magnetism *)
      try (lazymatch type of Hx with
           | _ = for_list (pyrange 0 2 1) _ _ =>
               let F := fresh "F" in
               assert (F : vec2 x0 /\ ge0 z (get (nofZ 0) x0 [0]) /\ ge0 x (get (nofZ 0) x0 [1]))
                 by (rewrite Hx; apply (magnet_facts z x lo up);
                     [ intros ? ?; cbv beta zeta;
                       repeat (match goal with |- context [if ?c then _ else _] => destruct c end); auto
                     | assumption .. ]);
               let V := fresh "V" in
               destruct F as (V & ? & ?); pose proof (proj1 V)
           end)
  | Z =>
      try (lazymatch type of Hx with
           | _ = searchsorted_right ?ax ?q - 1 =>
               match goal with
               | Ax : axisn ax ?n |- _ =>
                   assert (0 <= x0 <= n - 1)
                     by (rewrite Hx; apply (cell_index_range ax n q Ax); [lia | assumption])
               end
           end)
  | _ => idtac
  end end.

Ltac shape_leaf :=
  unfold obI; cbn [shape amap amap2 set];
  repeat match goal with Ha : shape ?a = _ |- context [shape ?a] => rewrite Ha end;
  reflexivity.

Ltac rleaf0 nz nx :=
  idtac;
  lazymatch goal with
  | |- obI true (inb _ _) = true => inb_solve
  | |- obI true (inb_sub _ _) = true => unfold obI; eapply inb_sub1_true; [eassumption | lia]
  | |- obI true (shape_eqb _ _) = true => shape_leaf
  | |- Interp2d.interp2d_1_ok _ _ _ _ _ _ _ = true =>
      eapply (interp2d_1_ok_true _ _ _ _ _ nz nx); eassumption
  | |- FteikCommon.shrink_ok _ _ _ _ _ _ = true => apply shrink_ok_true_gen; congruence
  | |- for_list_ok _ _ _ _ = true =>
      apply for_list_ok_inv with (P := fun q : arr T => shape q = [2]);
      [ assumption
      | let ix := fresh "ix" in let q := fresh "q" in let Hin := fresh "Hin" in let Hq := fresh "Hq" in
        intros ix q Hin Hq; apply in_pyrange_up in Hin; split;
        [ cbv beta zeta;
          repeat (match goal with |- context [if ?c then _ else _] => destruct c end);
          rewrite ?shape_set; exact Hq
        | cbv beta; rwalk ltac:(fun x0 Hx => shape_fact x0 Hx) ltac:(rleaf0 nz nx) ] ]
  | |- _ => reflexivity
  end.

Variables (z x zgrad xgrad : arr T) (nz nx : Z).
Hypothesis (Az : axisn z nz) (Ax : axisn x nx) (Hnz : 2 <= nz) (Hnx : 2 <= nx).
Hypothesis (Szg : shape zgrad = [nz; nx]) (Sxg : shape xgrad = [nz; nx]).

Lemma p1_ok_true hg max_step stepsize xend xsrc zend zsrc :
  1 <= max_step -> (hg = true -> ge0 z zend /\ ge0 x xend) ->
  u_ray2d_core_v_p1_ok true false hg max_step stepsize x xend xsrc z zend zsrc = true.
Proof.
  intros Hms Hge.
  pose proof (proj1 Az) as Sz. pose proof (proj1 Ax) as Sx.
  pose proof (dim_0 _ _ _ Sz) as Dz. pose proof (dim_0 _ _ _ Sx) as Dx.
  cbv beta delta [u_ray2d_core_v_p1_ok].
  destruct hg; [destruct (Hge eq_refl) as [Gz Gx]|];
    rwalk ltac:(rhook z x z x) ltac:(rleaf0 nz nx).
Qed.

(* loop invariant for the obligations *)
Definition SInv (hg : bool) (max_step : Z) (s : St2) : Prop :=
  1 <= s_count s /\ shape (s_ray s) = [max_step; 2] /\
  vec2 (s_pcur s) /\ vec2 (s_delta s) /\
  (hg = true -> vec2 (s_lower s) /\ vec2 (s_upper s) /\
     ge0 z (get (nofZ 0) (s_lower s) [0]) /\ ge0 z (get (nofZ 0) (s_upper s) [0]) /\
     ge0 x (get (nofZ 0) (s_lower s) [1]) /\ ge0 x (get (nofZ 0) (s_upper s) [1])).

Ltac mhook lo up x0 Hx :=
  lazymatch type of Hx with
  | _ = u_ray2d_core_v_p1 _ _ _ _ _ _ _ _ _ =>
      cbv beta zeta iota delta [u_ray2d_core_v_p1 fst snd] in Hx; subst x0
  | _ => rhook z x lo up x0 Hx
  end.

Ltac open_state s Hs :=
  let c := fresh "c" in let d := fresh "d" in let l := fresh "l" in let n := fresh "n" in
  let p := fresh "p" in let r := fresh "r" in let u := fresh "u" in
  destruct s as [[[[[[c d] l] n] p] r] u];
  unfold SInv in Hs; cbn [s_count s_delta s_lower s_nfree s_pcur s_ray s_upper fst snd] in Hs;
  let Hc := fresh "Hc" in let Sr := fresh "Sr" in let Vp := fresh "Vp" in let Vd := fresh "Vd" in
  let Hlu := fresh "Hlu" in
  destruct Hs as (Hc & Sr & Vp & Vd & Hlu);
  pose proof (proj1 Vp); pose proof (proj1 Vd).
Ltac open_lu Hlu :=
  let Vl := fresh "Vl" in let Vu := fresh "Vu" in
  destruct (Hlu eq_refl) as (Vl & Vu & ? & ? & ? & ?); pose proof (proj1 Vl); pose proof (proj1 Vu).

Ltac cell_ge0 Mz Mx :=
  first [ apply (cell_lo_ge0 _ _ _ _ Mz); assumption | apply (cell_hi_ge0 _ _ _ Mz); assumption
        | apply (cell_lo_ge0 _ _ _ _ Mx); assumption | apply (cell_hi_ge0 _ _ _ Mx); assumption ].
(* ge0 of a recomputed cell boundary stored in lower / upper *)
Ltac ge0_cell Mz Mx :=
  idtac;
  lazymatch goal with
  | |- ge0 _ (get _ ?a [_]) =>
      match goal with
      | Ha1 : a = set ?a0 [1] ?B, Ha0 : ?a0 = set ?p [0] ?A, Vp : vec2 ?p |- _ =>
          let G0 := fresh "G0" in let G1 := fresh "G1" in
          rewrite Ha1, Ha0; destruct (get_set2 (nofZ 0) p A B Vp) as [G0 G1]; rewrite ?G0, ?G1;
          cell_ge0 Mz Mx
      end
  end.

Ltac sinv_leaf tac :=
  idtac;
  lazymatch goal with
  | |- post ?Q (_ ?tup) => change (Q tup)
  end;
  unfold SInv; cbn [s_count s_delta s_lower s_nfree s_pcur s_ray s_upper fst snd];
  split; [lia|]; split; [assumption|]; split; [assumption|]; split; [assumption|];
  first [ intros; discriminate
        | intros _; split; [|split; [|split; [|split; [|split]]]]; first [ assumption | tac ] ].

Theorem ray2d_core_ok_true fuel zend xend zsrc xsrc stepsize max_step hg :
  1 <= max_step -> (hg = true -> axis_min z nz /\ axis_min x nx) ->
  u_ray2d_core_v_ok true false fuel z x zgrad xgrad zend xend zsrc xsrc stepsize max_step hg = true.
Proof.
  intros Hms Hmin.
  pose proof (proj1 Az) as Sz. pose proof (proj1 Ax) as Sx.
  pose proof (dim_0 _ _ _ Sz) as Dz. pose proof (dim_0 _ _ _ Sx) as Dx.
  cbv beta delta [u_ray2d_core_v_ok]. rewrite Dz, Dx.
  apply andb_true_intro; split; [apply andb_true_intro; split; inb_solve|].
  let_intro condz Hcz.
  apply andb_true_intro; split; [apply andb_true_intro; split; inb_solve|].
  let_intro condx Hcx.
  destruct (negb (condz && condx)) eqn:E; [reflexivity|].
  apply negb_false_iff in E. apply andb_prop in E. destruct E as [Ez Ex]. subst condz condx.
  apply andb_prop in Ez, Ex. destruct Ez as [Ez _]. destruct Ex as [Ex _].
  apply hull_ge0 in Ez, Ex.
  apply andb_true_intro; split; [apply p1_ok_true; [lia|auto]|].
  destruct hg.
  - destruct (Hmin eq_refl) as [Mz Mx].
    assert (Hzhi : ge0 z (get (nofZ 0) z [nz - 1])) by (apply Mz; lia).
    assert (Hxhi : ge0 x (get (nofZ 0) x [nx - 1])) by (apply Mx; lia).
    rwalk ltac:(mhook z x) ltac:(idtac). rewrite ?Dz, ?Dx.
    pose proof (cell_index_range z nz zend Az ltac:(lia) Ez) as Ri.
    pose proof (cell_index_range x nx xend Ax ltac:(lia) Ex) as Rj.
    apply (loop_ok _ _ _ _ (SInv true max_step)).
    + (* initial state *)
      unfold SInv. cbn [s_count s_delta s_lower s_nfree s_pcur s_ray s_upper fst snd].
      split; [lia|]. split; [reflexivity|]. split; [apply vec2_of_list|]. split; [apply vec2_full|].
      intros _. split; [apply vec2_of_list|]. split; [apply vec2_of_list|].
      repeat match goal with |- context [get (nofZ 0) (of_list [?a; ?b]) [_]] =>
        let G0 := fresh "G0" in let G1 := fresh "G1" in
        destruct (get_of_list2 (nofZ 0) a b) as [G0 G1]; rewrite ?G0, ?G1; clear G0 G1 end.
      repeat split; cell_ge0 Mz Mx.
    + (* loop condition *)
      intros s Hs. open_state s Hs. cbv beta. rwalk ltac:(mhook z x) ltac:(rleaf0 nz nx).
    + (* loop body *)
      intros s Hs. open_state s Hs. open_lu Hlu. cbv beta.
      rwalk ltac:(mhook l u) ltac:(rleaf0 nz nx).
    + (* the invariant is preserved *)
      intros s s' Hs Hb. refine (post_elim (SInv true max_step) _ s' _ Hb). clear Hb s'.
      pose proof Hs as Hs0. open_state s Hs. open_lu Hlu. cbv beta.
      vwalk ltac:(mhook l u) ltac:(sinv_leaf ltac:(ge0_cell Mz Mx)).
    + (* after the loop *)
      intros s Hs. open_state s Hs. cbv beta. rwalk ltac:(mhook z x) ltac:(rleaf0 nz nx).
  - rwalk ltac:(mhook z x) ltac:(idtac).
    apply (loop_ok _ _ _ _ (SInv false max_step)).
    + unfold SInv. cbn [s_count s_delta s_lower s_nfree s_pcur s_ray s_upper fst snd].
      split; [lia|]. split; [reflexivity|]. split; [apply vec2_of_list|]. split; [apply vec2_full|].
      intros; discriminate.
    + intros s Hs. open_state s Hs. cbv beta. rwalk ltac:(mhook z x) ltac:(rleaf0 nz nx).
    + intros s Hs. open_state s Hs. cbv beta. rwalk ltac:(mhook z x) ltac:(rleaf0 nz nx).
    + intros s s' Hs Hb. refine (post_elim (SInv false max_step) _ s' _ Hb). clear Hb s'.
      open_state s Hs. cbv beta.
      vwalk ltac:(mhook z x) ltac:(sinv_leaf ltac:(fail)).
    + intros s Hs. open_state s Hs. cbv beta. rwalk ltac:(mhook z x) ltac:(rleaf0 nz nx).
Qed.
End Core2Safe.
