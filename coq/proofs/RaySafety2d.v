(* Memory safety of the a posteriori 2D ray tracer (gen/Ray2d.v, gen/FteikCommon.v; source
   /repo/fteikpy/_fteik/_ray2d.py, _fteik/_common.py), and two exact-arithmetic facts about `shrink`.

     1. shrink_ok_true_gen / shrink_ok_true    every obligation of `shrink` holds as soon as
                                               shape pcur = shape delta (any numeric type, no law)
     2. ray2d_core_ok_true, ray2d_ok_true, ray2d_1_ok_true
                                               subscripts of _ray2d_core / _ray2d / ray2d (single point)
     3. (RaySafety3d.v)
     4. (T := R) shrink_attained, shrink_range, shrink_ge1_inside; vertex_on_grid_line_2d (one iteration, before
        the grid magnetism) and ray2d_vertices_on_grid_lines (every interior vertex of a returned grid-honouring
        ray has a coordinate that is exactly a node of the corresponding axis, after the magnetism too)

   Method for 2: `while_ok_inv` (Hoare rule for the obligation loop), an invariant `SInv` on the loop state,
   a walk through the obligation term of the body that keeps the equation of every let-bound value
   (`rwalk`), and a second walk through the value term of the body for the preservation of `SInv`. *)
From Coq Require Import ZArith List Bool Lia Reals Lra PrimFloat.
From FT.lib Require Import Num Arr ArrLemmas NumArr.
From FT.gen Require Import Common Interp2d FteikCommon Ray2d.
From FT.proofs Require Import SafetyTools SafetyInterp Ray2dProofs.
From FT.proofs Require NumFLaws SSR.
Import ListNotations.
Open Scope Z_scope.

(* ------------------------------------------------------------------------------------------ *)
(* 1. shrink                                                                                    *)
(* ------------------------------------------------------------------------------------------ *)
Lemma shape_eqb_refl (s : list Z) : shape_eqb s s = true.
Proof. induction s as [|a s IH]; [reflexivity|]. cbn [shape_eqb]. rewrite Z.eqb_refl. exact IH. Qed.

(* number of selected positions of a mask *)
Fixpoint ctrue (m : list bool) : nat :=
  match m with [] => 0%nat | b :: t => ((if b then 1 else 0) + ctrue t)%nat end.

Lemma mask_list_length {A} (l : list A) : forall m,
  (length m <= length l)%nat -> length (mask_list l m) = ctrue m.
Proof.
  induction l as [|a l IH]; intros [|b m] Hm; simpl in *; try lia; try reflexivity.
  destruct b; simpl; rewrite IH by lia; reflexivity.
Qed.

(* `.any()` is true exactly when the selection is non-empty *)
Lemma existsb_ctrue (m : list bool) : existsb (fun b => b) m = true <-> (0 < ctrue m)%nat.
Proof.
  induction m as [|b m IH]; simpl; [split; [discriminate|lia]|].
  destruct b; simpl; [split; [lia|reflexivity]|exact IH].
Qed.

Lemma aany_amask_nonempty {A} (a : arr A) (m : arr bool) :
  (length (dat m) <= length (dat a))%nat -> (aany m = true <-> 0 < alen (amask a m)).
Proof.
  intros Hl. unfold aany, alen, amask, of_list. cbn [dat].
  rewrite (mask_list_length (dat a) (dat m) Hl), existsb_ctrue. lia.
Qed.

Lemma zipw_length {A B C} (f : A -> B -> C) : forall l1 l2,
  length (zipw f l1 l2) = Nat.min (length l1) (length l2).
Proof. induction l1 as [|a l1 IH]; intros [|b l2]; simpl; auto. Qed.

Lemma shape_amask_eq {A B} (a : arr A) (b : arr B) (m : arr bool) :
  (length (dat m) <= length (dat a))%nat -> (length (dat m) <= length (dat b))%nat ->
  shape (amask a m) = shape (amask b m).
Proof. intros Ha Hb. unfold amask, of_list. cbn [shape]. rewrite !mask_list_length by assumption. reflexivity. Qed.

Section Shrink.
Context {T : Type} `{Num T}.

(* the selected quotients  (p[m] - b[m]) / d[m]  of shrink *)
Definition quot (p b d : arr T) (m : arr bool) : arr T :=
  amap2 ndiv (amap2 nsub (amask p m) (amask b m)) (amask d m).

Lemma quot_obligations (p b d : arr T) (m : arr bool) :
  (length (dat m) <= length (dat p))%nat -> (length (dat m) <= length (dat b))%nat ->
  (length (dat m) <= length (dat d))%nat ->
  shape_eqb (shape (amask p m)) (shape (amask b m)) = true /\
  shape_eqb (shape (amap2 nsub (amask p m) (amask b m))) (shape (amask d m)) = true /\
  (aany m = true -> (0 <? alen (quot p b d m)) = true).
Proof.
  intros Hp Hb Hd. split; [|split].
  - rewrite (shape_amask_eq p b m Hp Hb). apply shape_eqb_refl.
  - change (shape (amap2 nsub (amask p m) (amask b m))) with (shape (amask p m)).
    rewrite (shape_amask_eq p d m Hp Hd). apply shape_eqb_refl.
  - intros Ha. apply Z.ltb_lt. unfold quot, alen, amap2, amask, of_list. cbn [dat].
    rewrite !zipw_length, !mask_list_length by assumption.
    apply existsb_ctrue in Ha. lia.
Qed.

(* lengths of the two masks *)
Lemma shrink_mask_lengths (pcur delta lower upper : arr T) :
  let tmp := amap2 nsub pcur delta in
  let maskl := amap2 nltb tmp lower in
  let masku := amap2 ngtb tmp upper in
  ((length (dat maskl) <= length (dat pcur))%nat /\ (length (dat maskl) <= length (dat lower))%nat /\
   (length (dat maskl) <= length (dat delta))%nat) /\
  ((length (dat masku) <= length (dat pcur))%nat /\ (length (dat masku) <= length (dat upper))%nat /\
   (length (dat masku) <= length (dat delta))%nat).
Proof. cbv zeta. unfold amap2. cbn [dat]. rewrite !zipw_length. lia. Qed.

(* All obligations of `shrink`: the only one that depends on the arguments is the first
   (`pcur - delta` needs equal shapes); the masked selections have equal lengths by construction and are
   non-empty exactly when `.any()` is true. *)
Theorem shrink_ok_true_gen (pcur delta lower upper : arr T) :
  shape pcur = shape delta -> FteikCommon.shrink_ok true false pcur delta lower upper = true.
Proof.
  intros Hs.
  destruct (shrink_mask_lengths pcur delta lower upper) as [(L1 & L2 & L3) (U1 & U2 & U3)].
  cbv zeta in L1, L2, L3, U1, U2, U3.
  destruct (quot_obligations pcur lower delta _ L1 L2 L3) as (QL1 & QL2 & QL3).
  destruct (quot_obligations pcur upper delta _ U1 U2 U3) as (QU1 & QU2 & QU3).
  unfold quot in QL3, QU3.
  unfold FteikCommon.shrink_ok. cbv zeta. unfold obI, obD.
  rewrite Hs, shape_eqb_refl, QL1, QL2, QU1, QU2. cbn [andb].
  destruct (aany (amap2 nltb (amap2 nsub pcur delta) lower)) eqn:El;
  destruct (aany (amap2 ngtb (amap2 nsub pcur delta) upper)) eqn:Eu; cbn [andb negb];
    rewrite ?(QL3 eq_refl), ?(QU3 eq_refl); reflexivity.
Qed.

Corollary shrink_ok_true (pcur delta lower upper : arr T) (n : Z) :
  1 <= n -> shape pcur = [n] -> shape delta = [n] -> shape lower = [n] -> shape upper = [n] ->
  FteikCommon.shrink_ok true false pcur delta lower upper = true.
Proof. intros _ Sp Sd _ _. apply shrink_ok_true_gen. congruence. Qed.
End Shrink.

(* ------------------------------------------------------------------------------------------ *)
(* generic rules for the obligation loop                                                        *)
(* ------------------------------------------------------------------------------------------ *)
Section WhileOk.
Context {S : Type}.
Variables (cond cond_ok : S -> bool) (body : S -> ctl S) (body_ok : S -> bool).

Lemma while_ok_inv (P : S -> Prop) :
  (forall s, P s -> cond_ok s = true) ->
  (forall s, P s -> cond s = true -> body_ok s = true) ->
  (forall s s', P s -> cond s = true -> body s = Next s' -> P s') ->
  forall fuel s, P s -> while_ok fuel cond cond_ok body body_ok s = true.
Proof.
  intros Hc Hb Hn. induction fuel as [|f IH]; intros s Hs; [reflexivity|].
  cbn [while_ok]. rewrite (Hc s Hs). cbn [andb].
  destruct (cond s) eqn:Ec; [|reflexivity]. rewrite (Hb s Hs Ec). cbn [andb].
  destruct (body s) as [s'|s'|e] eqn:Eb; try reflexivity. apply IH. exact (Hn s s' Hs Ec Eb).
Qed.

(* the loop and the code after it *)
Lemma loop_ok (P : S -> Prop) (K : S -> bool) fuel s0 :
  P s0 ->
  (forall s, P s -> cond_ok s = true) ->
  (forall s, P s -> body_ok s = true) ->
  (forall s s', P s -> body s = Next s' \/ body s = Brk s' -> P s') ->
  (forall s, P s -> K s = true) ->
  while_ok fuel cond cond_ok body body_ok s0 && res_ok (while_fuel fuel cond body s0) K = true.
Proof.
  intros H0 Hc Hb Hn HK. apply andb_true_intro. split.
  - apply (while_ok_inv P); auto. intros s s' Hs _ Eb. apply (Hn s s' Hs). left. exact Eb.
  - destruct (while_fuel fuel cond body s0) as [s1| |] eqn:Ew; try reflexivity. cbn [res_ok].
    apply HK. apply (while_fuel_inv cond body P P) with (4 := H0) (5 := Ew); auto.
    + intros s s' Hs _ Eb. apply (Hn s s' Hs). left. exact Eb.
    + intros s s' Hs _ Eb. apply (Hn s s' Hs). right. exact Eb.
Qed.
End WhileOk.

(* result of one execution of the body, whatever the control outcome *)
Definition post {S} (Q : S -> Prop) (r : ctl S) : Prop :=
  match r with Next s' => Q s' | Brk s' => Q s' | Exc _ => True end.
Lemma post_elim {S} (Q : S -> Prop) (r : ctl S) s' : post Q r -> r = Next s' \/ r = Brk s' -> Q s'.
Proof. intros Hp [-> | ->]; exact Hp. Qed.

Lemma inb_sub1_true {A} (a : arr A) n0 l i : shape a = n0 :: l -> 0 <= i < n0 -> inb_sub a [i] = true.
Proof. intros E Hi. unfold inb_sub. rewrite E. cbn [inb_prefix].
  repeat (apply andb_true_intro; split); first [ destruct l; reflexivity | apply Z.leb_le; lia | apply Z.ltb_lt; lia ]. Qed.

(* ------------------------------------------------------------------------------------------ *)
(* walking through an obligation term, keeping the equation of every let-bound value            *)
(* ------------------------------------------------------------------------------------------ *)
Ltac rwalk hook leaf :=
  lazymatch goal with
  | |- true = true => reflexivity
  | |- andb (while_ok _ _ _ _ _ _) _ = true => leaf
  | |- andb _ _ = true => apply andb_true_intro; split; rwalk hook leaf
  | |- (let x := ?v in @?F x) = true =>
      let tv := type of v in
      lazymatch tv with
      | _ -> bool =>
          refine (let_fun_true v F _ _);
          [ intro; cbv beta; rwalk hook leaf
          | let k := fresh "k" in let Hk := fresh "Hk" in intros k Hk; cbv beta; rwalk hook leaf ]
      | _ =>
          let x := fresh "x" in let Hx := fresh "Hx" in
          refine (let_eq_true v F _); intros x Hx; cbv beta;
          lazymatch v with
          | fst _ => cbn [fst snd] in Hx; subst x
          | snd _ => cbn [fst snd] in Hx; subst x
          | _ => hook x Hx
          end;
          rwalk hook leaf
      end
  | |- (if ?c then ?a else ?b) = true =>
      let c' := eval cbn [andb negb orb] in c in
      lazymatch c' with
      | true => change (a = true); rwalk hook leaf
      | false => change (b = true); rwalk hook leaf
      | _ => let E := fresh "E" in destruct c eqn:E; rwalk hook leaf
      end
  | |- obD false _ = true => reflexivity
  | Hk : forall u, ?k u = true |- ?k _ = true => apply Hk
  | |- _ => leaf
  end.

Lemma let_post {A S} (Q : S -> Prop) (v : A) (F : A -> ctl S) :
  (forall x, x = v -> post Q (F x)) -> post Q (let x := v in F x).
Proof. intros Hf. exact (Hf v eq_refl). Qed.

(* the same walk through a value term of type `ctl S` (continuations stay local definitions) *)
Ltac vwalk hook leaf :=
  lazymatch goal with
  | |- post ?Q (let x := ?v in @?F x) =>
      let tv := type of v in
      lazymatch tv with
      | _ -> _ => pull_let; vwalk hook leaf
      | _ =>
          let x := fresh "x" in let Hx := fresh "Hx" in
          refine (let_post Q v F _); intros x Hx; cbv beta;
          lazymatch v with
          | fst _ => cbn [fst snd] in Hx; subst x
          | snd _ => cbn [fst snd] in Hx; subst x
          | _ => hook x Hx
          end;
          vwalk hook leaf
      end
  | |- post ?Q (if ?c then ?a else ?b) =>
      let c' := eval cbn [andb negb orb] in c in
      lazymatch c' with
      | true => change (post Q a); vwalk hook leaf
      | false => change (post Q b); vwalk hook leaf
      | _ => let E := fresh "E" in destruct c eqn:E; vwalk hook leaf
      end
  | |- post _ (Brk _) => leaf
  | |- post _ (Next _) => leaf
  | |- post _ (Exc _) => exact I
  | |- post _ (?f _) => head_unfold; vwalk hook leaf
  | |- _ => leaf
  end.

Ltac let_intro x Hx :=
  lazymatch goal with
  | |- (let y := ?v in @?F y) = true => refine (let_eq_true v F _); intros x Hx; cbv beta
  end.

(* ------------------------------------------------------------------------------------------ *)
(* 2. the 2D core                                                                               *)
(* ------------------------------------------------------------------------------------------ *)
Section Safe2.
Context {T : Type} `{Num T}.

(* v is not below the first entry of the axis: what makes `searchsorted(ax, v, "right") - 1 >= 0` *)
Definition ge0 (ax : arr T) (v : T) : Prop := nltb v (get (nofZ 0) ax [0]) = false.

(* the two order laws used (both hold for R and, NaN included, for binary64) *)
Class RayLaws : Prop := {
  rl_le_lt : le_lt_law (T := T);
  rl_irrefl : forall a : T, nltb a a = false }.

(* no entry of the axis is below the first one (any ascending axis); only needed with honor_grid *)
Definition axis_min (ax : arr T) (n : Z) : Prop :=
  forall k, 0 <= k < n -> ge0 ax (get (nofZ 0) ax [k]).

Lemma clamp_ge0 (ax : arr T) (a hi : T) :
  (forall a : T, nltb a a = false) -> ge0 ax hi -> ge0 ax (pymin2 (pymax2 a (get (nofZ 0) ax [0])) hi).
Proof.
  intros Irr Hhi. unfold ge0, pymin2, pymax2 in *.
  destruct (nltb a (get (nofZ 0) ax [0])) eqn:E1;
    match goal with |- context [if ?c then _ else _] => destruct c eqn:E2 end; auto; congruence.
Qed.

Lemma cell_index_range (ax : arr T) n q :
  axisn ax n -> 1 <= n -> ge0 ax q -> 0 <= searchsorted_right ax q - 1 <= n - 1.
Proof.
  intros [S L] Hn Hq. pose proof (ssr_upper ax n q L ltac:(lia)) as Hu.
  assert (1 <= searchsorted_right ax q); [|lia].
  unfold searchsorted_right. apply (SafetyTools.ssr_list_pos (dat ax) q (nofZ 0)).
  - intros E. rewrite E in L. simpl in L. lia.
  - unfold ge0, get, flat in Hq. rewrite S in Hq. exact Hq.
Qed.

Lemma vec2_len (p : arr T) : vec2 p -> length (dat p) = 2%nat.
Proof. intros [_ L]. exact L. Qed.
Lemma vec2_full (v : T) : vec2 (full [2] v).
Proof. split; reflexivity. Qed.

Lemma clamp2_facts (z x p : arr T) (zhi xhi : T) :
  (forall a : T, nltb a a = false) -> vec2 p -> ge0 z zhi -> ge0 x xhi ->
  let p2 := set p [0] (pymin2 (pymax2 (get (nofZ 0) p [0]) (get (nofZ 0) z [0])) zhi) in
  let p3 := set p2 [1] (pymin2 (pymax2 (get (nofZ 0) p2 [1]) (get (nofZ 0) x [0])) xhi) in
  vec2 p3 /\ ge0 z (get (nofZ 0) p3 [0]) /\ ge0 x (get (nofZ 0) p3 [1]).
Proof.
  intros Irr Hp Hz Hx p2 p3. split; [apply vec2_set, vec2_set, Hp|].
  unfold p3, p2.
  match goal with |- context [set (set p [0] ?a) [1] ?b] =>
    destruct (get_set2 (nofZ 0) p a b Hp) as [G0 G1]; rewrite G0, G1 end.
  split; apply clamp_ge0; assumption.
Qed.

(* the magnetism loop body keeps, or snaps to a cell boundary, component ix *)
Definition magnet_body (lo up : arr T) (body : Z -> arr T -> arr T) : Prop :=
  forall ix q, body ix q = q \/ body ix q = set q [ix] (get (nofZ 0) lo [ix]) \/
               body ix q = set q [ix] (get (nofZ 0) up [ix]).

Lemma magnet_facts (z x lo up : arr T) body p :
  magnet_body lo up body -> vec2 p ->
  ge0 z (get (nofZ 0) p [0]) -> ge0 x (get (nofZ 0) p [1]) ->
  ge0 z (get (nofZ 0) lo [0]) -> ge0 z (get (nofZ 0) up [0]) ->
  ge0 x (get (nofZ 0) lo [1]) -> ge0 x (get (nofZ 0) up [1]) ->
  let p' := for_list (pyrange 0 2 1) body p in
  vec2 p' /\ ge0 z (get (nofZ 0) p' [0]) /\ ge0 x (get (nofZ 0) p' [1]).
Proof.
  intros Hb Hp P0 P1 L0 U0 L1 U1 p'. split.
  - apply vec2_for_list; [|exact Hp]. intros ix q Hq.
    destruct (Hb ix q) as [E|[E|E]]; rewrite E; [exact Hq|apply vec2_set; exact Hq|apply vec2_set; exact Hq].
  - destruct (magnet_for_list lo up body p Hb Hp) as [M0 M1]. fold p' in M0, M1. unfold magnet_of in M0, M1.
    split; [destruct M0 as [E|[E|E]]|destruct M1 as [E|[E|E]]]; rewrite E; assumption.
Qed.

(* the cell boundaries recomputed at a vertex are axis entries *)
Lemma cell_bounds_ge0 (ax : arr T) n q i :
  axis_min ax n -> 0 <= i <= n - 1 ->
  ge0 ax (if neqb q (get (nofZ 0) ax [i]) then get (nofZ 0) ax [Z.max (i - 1) 0] else get (nofZ 0) ax [i]) /\
  ge0 ax (get (nofZ 0) ax [Z.min (i + 1) (n - 1)]).
Proof. intros Hm Hi. split; [destruct (neqb _ _)|]; apply Hm; lia. Qed.
Lemma cell_lo_ge0 (ax : arr T) n q i :
  axis_min ax n -> 0 <= i <= n - 1 ->
  ge0 ax (if neqb q (get (nofZ 0) ax [i]) then get (nofZ 0) ax [Z.max (i - 1) 0] else get (nofZ 0) ax [i]).
Proof. intros Hm Hi. apply (cell_bounds_ge0 ax n q i Hm Hi). Qed.
Lemma cell_hi_ge0 (ax : arr T) n i :
  axis_min ax n -> 0 <= i <= n - 1 -> ge0 ax (get (nofZ 0) ax [Z.min (i + 1) (n - 1)]).
Proof. intros Hm Hi. apply (cell_bounds_ge0 ax n (nofZ 0) i Hm Hi). Qed.
End Safe2.

Section Core2Safe.
Context {T : Type} `{Num T}.
Context {Laws : RayLaws (T := T)}.

Lemma interp2d_1_ok_true (z x v q : arr T) (fval : T) nz nx :
  axisn z nz -> axisn x nx -> 2 <= nz -> 2 <= nx -> shape v = [nz; nx] -> shape q = [2] ->
  Interp2d.interp2d_1_ok true false z x v q fval = true.
Proof.
  intros Az Ax Hz Hx Sv Sq. unfold Interp2d.interp2d_1_ok.
  rewrite (interp2d_ok_true rl_le_lt z x v _ _ fval nz nx Az Ax Hz Hx Sv).
  unfold obI. rewrite !(inb1_true q 2) by (auto; lia). reflexivity.
Qed.

Lemma hull_ge0 (ax : arr T) (v : T) : nleb (get (nofZ 0) ax [0]) v = true -> ge0 ax v.
Proof. intros Hle. apply rl_le_lt. exact Hle. Qed.

(* ---- facts about let-bound values (forward chaining while walking) ---- *)
Ltac solve_v2 :=
  repeat first [ assumption | apply vec2_set | apply vec2_of_list | apply vec2_full
               | apply vec2_amap2 | apply len2_amap | apply vec2_len ].

Ltac shape_fact x Hx :=
  let S := fresh "S" in
  pose proof (f_equal shape Hx) as S;
  cbn [shape set set_sub amap2 amap of_list full length Z.of_nat Pos.of_succ_nat Pos.succ] in S;
  repeat match type of S with
         | _ = ?rhs => match rhs with context [shape ?a] =>
                         match goal with Ha : shape a = _ |- _ => rewrite Ha in S end end
         end;
  try (lazymatch type of S with _ = shape _ => clear S end).

Ltac rhook z x lo up x0 Hx :=
  lazymatch type of Hx with _ = ?y => tryif is_var y then subst x0 else
  lazymatch type of x0 with
  | arr _ =>
      try (assert (vec2 x0) by (rewrite Hx; solve_v2));
      shape_fact x0 Hx;
      (* the two clamps *)
      try (lazymatch type of Hx with
           | _ = set ?a [1] (pymin2 (pymax2 _ _) _) =>
               match goal with
               | Ha : a = set _ [0] (pymin2 (pymax2 _ _) _) |- _ =>
                   let F := fresh "F" in
                   assert (F : vec2 x0 /\ ge0 z (get (nofZ 0) x0 [0]) /\ ge0 x (get (nofZ 0) x0 [1]))
                     by (rewrite Hx, Ha; apply clamp2_facts; [apply rl_irrefl | assumption ..]);
                   destruct F as (_ & ? & ?)
               end
           end);
      (* grid magnetism *)
      try (lazymatch type of Hx with
           | _ = for_list (pyrange 0 2 1) _ _ =>
               let F := fresh "F" in
               assert (F : vec2 x0 /\ ge0 z (get (nofZ 0) x0 [0]) /\ ge0 x (get (nofZ 0) x0 [1]))
                 by (rewrite Hx; apply (magnet_facts z x lo up);
                     [ intros ? ?; cbv beta zeta;
                       repeat (match goal with |- context [if ?c then _ else _] => destruct c end); auto
                     | assumption .. ]);
               let V := fresh "V" in
               destruct F as (V & ? & ?); pose proof (proj1 V)
           end)
  | Z =>
      try (lazymatch type of Hx with
           | _ = searchsorted_right ?ax ?q - 1 =>
               match goal with
               | Ax : axisn ax ?n |- _ =>
                   assert (0 <= x0 <= n - 1)
                     by (rewrite Hx; apply (cell_index_range ax n q Ax); [lia | assumption])
               end
           end)
  | _ => idtac
  end end.

Ltac shape_leaf :=
  unfold obI; cbn [shape amap amap2 set];
  repeat match goal with Ha : shape ?a = _ |- context [shape ?a] => rewrite Ha end;
  reflexivity.

Ltac rleaf0 nz nx :=
  idtac;
  lazymatch goal with
  | |- obI true (inb _ _) = true => inb_solve
  | |- obI true (inb_sub _ _) = true => unfold obI; eapply inb_sub1_true; [eassumption | lia]
  | |- obI true (shape_eqb _ _) = true => shape_leaf
  | |- Interp2d.interp2d_1_ok _ _ _ _ _ _ _ = true =>
      eapply (interp2d_1_ok_true _ _ _ _ _ nz nx); eassumption
  | |- FteikCommon.shrink_ok _ _ _ _ _ _ = true => apply shrink_ok_true_gen; congruence
  | |- for_list_ok _ _ _ _ = true =>
      apply for_list_ok_inv with (P := fun q : arr T => shape q = [2]);
      [ assumption
      | let ix := fresh "ix" in let q := fresh "q" in let Hin := fresh "Hin" in let Hq := fresh "Hq" in
        intros ix q Hin Hq; apply in_pyrange_up in Hin; split;
        [ cbv beta zeta;
          repeat (match goal with |- context [if ?c then _ else _] => destruct c end);
          rewrite ?shape_set; exact Hq
        | cbv beta; rwalk ltac:(fun x0 Hx => shape_fact x0 Hx) ltac:(rleaf0 nz nx) ] ]
  | |- _ => reflexivity
  end.

Variables (z x zgrad xgrad : arr T) (nz nx : Z).
Hypothesis (Az : axisn z nz) (Ax : axisn x nx) (Hnz : 2 <= nz) (Hnx : 2 <= nx).
Hypothesis (Szg : shape zgrad = [nz; nx]) (Sxg : shape xgrad = [nz; nx]).

Lemma p1_ok_true hg max_step stepsize xend xsrc zend zsrc :
  1 <= max_step -> (hg = true -> ge0 z zend /\ ge0 x xend) ->
  u_ray2d_core_v_p1_ok true false hg max_step stepsize x xend xsrc z zend zsrc = true.
Proof.
  intros Hms Hge.
  pose proof (proj1 Az) as Sz. pose proof (proj1 Ax) as Sx.
  pose proof (dim_0 _ _ _ Sz) as Dz. pose proof (dim_0 _ _ _ Sx) as Dx.
  cbv beta delta [u_ray2d_core_v_p1_ok].
  destruct hg; [destruct (Hge eq_refl) as [Gz Gx]|];
    rwalk ltac:(rhook z x z x) ltac:(rleaf0 nz nx).
Qed.

(* loop invariant for the obligations *)
Definition SInv (hg : bool) (max_step : Z) (s : St2) : Prop :=
  1 <= s_count s /\ shape (s_ray s) = [max_step; 2] /\
  vec2 (s_pcur s) /\ vec2 (s_delta s) /\
  (hg = true -> vec2 (s_lower s) /\ vec2 (s_upper s) /\
     ge0 z (get (nofZ 0) (s_lower s) [0]) /\ ge0 z (get (nofZ 0) (s_upper s) [0]) /\
     ge0 x (get (nofZ 0) (s_lower s) [1]) /\ ge0 x (get (nofZ 0) (s_upper s) [1])).

Ltac mhook lo up x0 Hx := rhook z x lo up x0 Hx.

(* all leading lets at once, their values being evaluated first (initial segment of the core); a single
   conversion, checked by the kernel at Qed *)
Ltac zeta_all t :=
  lazymatch t with
  | (let x := ?v in @?F x) =>
      let v' := eval cbv beta zeta iota delta [u_ray2d_core_v_p1 fst snd] in v in
      let t' := eval cbv beta in (F v') in
      zeta_all t'
  | _ => t
  end.
Ltac zeta_head :=
  lazymatch goal with
  | |- ?t = true => let t' := zeta_all t in change_no_check (t' = true)
  end.

(* outer structure of the core: hull test, then the rest *)
Lemma core_shape (a b cz cx rest : bool) :
  a = true -> b = true -> (cz = true -> cx = true -> rest = true) ->
  a && (let condz := cz in b && (let condx := cx in if negb (condz && condx) then true else rest)) = true.
Proof.
  intros -> -> Hr. cbv zeta. cbn [andb]. destruct cz, cx; cbn [andb negb]; auto.
Qed.

Ltac open_state s Hs :=
  let c := fresh "c" in let d := fresh "d" in let l := fresh "l" in let n := fresh "n" in
  let p := fresh "p" in let r := fresh "r" in let u := fresh "u" in
  destruct s as [[[[[[c d] l] n] p] r] u];
  unfold SInv in Hs; cbn [s_count s_delta s_lower s_nfree s_pcur s_ray s_upper fst snd] in Hs;
  let Hc := fresh "Hc" in let Sr := fresh "Sr" in let Vp := fresh "Vp" in let Vd := fresh "Vd" in
  let Hlu := fresh "Hlu" in
  destruct Hs as (Hc & Sr & Vp & Vd & Hlu);
  pose proof (proj1 Vp); pose proof (proj1 Vd).
Ltac open_lu Hlu :=
  let Vl := fresh "Vl" in let Vu := fresh "Vu" in
  destruct (Hlu eq_refl) as (Vl & Vu & ? & ? & ? & ?); pose proof (proj1 Vl); pose proof (proj1 Vu).

Ltac cell_ge0 Mz Mx :=
  first [ apply (cell_lo_ge0 _ _ _ _ Mz); assumption | apply (cell_hi_ge0 _ _ _ Mz); assumption
        | apply (cell_lo_ge0 _ _ _ _ Mx); assumption | apply (cell_hi_ge0 _ _ _ Mx); assumption ].
(* ge0 of a recomputed cell boundary stored in lower / upper *)
Ltac ge0_cell Dz Dx Mz Mx :=
  idtac;
  lazymatch goal with
  | |- ge0 _ (get _ ?a [_]) =>
      match goal with
      | Ha1 : a = set ?a0 [1] ?B, Ha0 : ?a0 = set ?p [0] ?A, Vp : vec2 ?p |- _ =>
          let G0 := fresh "G0" in let G1 := fresh "G1" in
          rewrite Ha1, Ha0; destruct (get_set2 (nofZ 0) p A B Vp) as [G0 G1]; rewrite ?G0, ?G1;
          rewrite ?Dz, ?Dx; cell_ge0 Mz Mx
      end
  end.

Ltac sinv_leaf tac :=
  idtac;
  lazymatch goal with
  | |- post ?Q (_ ?tup) => change (Q tup)
  end;
  unfold SInv; cbn [s_count s_delta s_lower s_nfree s_pcur s_ray s_upper fst snd];
  split; [lia|]; split; [assumption|]; split; [assumption|]; split; [assumption|];
  first [ intros; discriminate
        | intros _; split; [|split; [|split; [|split; [|split]]]]; first [ assumption | tac ] ].

Theorem ray2d_core_ok_true fuel zend xend zsrc xsrc stepsize max_step hg :
  1 <= max_step -> (hg = true -> axis_min z nz /\ axis_min x nx) ->
  u_ray2d_core_v_ok true false fuel z x zgrad xgrad zend xend zsrc xsrc stepsize max_step hg = true.
Proof.
  intros Hms Hmin.
  pose proof (proj1 Az) as Sz. pose proof (proj1 Ax) as Sx.
  pose proof (dim_0 _ _ _ Sz) as Dz. pose proof (dim_0 _ _ _ Sx) as Dx.
  destruct hg.
  - destruct (Hmin eq_refl) as [Mz Mx].
    assert (Hzhi : ge0 z (get (nofZ 0) z [dim z 0%nat - 1])) by (apply Mz; lia).
    assert (Hxhi : ge0 x (get (nofZ 0) x [dim x 0%nat - 1])) by (apply Mx; lia).
    cbv beta delta [u_ray2d_core_v_ok].
    apply core_shape; [apply andb_true_intro; split; inb_solve ..|].
    intros Ez Ex. apply andb_prop in Ez, Ex. destruct Ez as [Ez _]. destruct Ex as [Ex _].
    apply hull_ge0 in Ez, Ex.
    apply andb_true_intro; split; [apply p1_ok_true; [lia|auto]|].
    zeta_head.
    pose proof (cell_index_range z nz zend Az ltac:(lia) Ez) as Ri.
    pose proof (cell_index_range x nx xend Ax ltac:(lia) Ex) as Rj.
    apply (loop_ok _ _ _ _ (SInv true max_step)).
    + (* initial state *)
      unfold SInv. cbn [s_count s_delta s_lower s_nfree s_pcur s_ray s_upper fst snd].
      split; [lia|]. split; [reflexivity|]. split; [apply vec2_of_list|]. split; [apply vec2_full|].
      intros _. split; [apply vec2_of_list|]. split; [apply vec2_of_list|].
      repeat match goal with |- context [get (nofZ 0) (of_list [?a; ?b]) [_]] =>
        let G0 := fresh "G0" in let G1 := fresh "G1" in
        destruct (get_of_list2 (nofZ 0) a b) as [G0 G1]; rewrite ?G0, ?G1; clear G0 G1 end.
      rewrite ?Dz, ?Dx. repeat split; cell_ge0 Mz Mx.
    + (* loop condition *)
      intros s Hs. open_state s Hs. cbv beta. rwalk ltac:(mhook z x) ltac:(rleaf0 nz nx).
    + (* loop body *)
      intros s Hs. open_state s Hs. open_lu Hlu. cbv beta.
      rwalk ltac:(mhook l u) ltac:(rleaf0 nz nx).
    + (* the invariant is preserved *)
      intros s s' Hs Hb. refine (post_elim (SInv true max_step) _ s' _ Hb). clear Hb s'.
      open_state s Hs. open_lu Hlu. cbv beta.
      vwalk ltac:(mhook l u) ltac:(sinv_leaf ltac:(ge0_cell Dz Dx Mz Mx)).
    + (* after the loop *)
      intros s Hs. open_state s Hs. cbv beta. rwalk ltac:(mhook z x) ltac:(rleaf0 nz nx).
  - cbv beta delta [u_ray2d_core_v_ok].
    apply core_shape; [apply andb_true_intro; split; inb_solve ..|].
    intros _ _.
    apply andb_true_intro; split; [apply p1_ok_true; [lia|intros; discriminate]|].
    zeta_head.
    apply (loop_ok _ _ _ _ (SInv false max_step)).
    + unfold SInv. cbn [s_count s_delta s_lower s_nfree s_pcur s_ray s_upper fst snd].
      split; [lia|]. split; [reflexivity|]. split; [apply vec2_of_list|]. split; [apply vec2_full|].
      intros; discriminate.
    + intros s Hs. open_state s Hs. cbv beta. rwalk ltac:(mhook z x) ltac:(rleaf0 nz nx).
    + intros s Hs. open_state s Hs. cbv beta. rwalk ltac:(mhook z x) ltac:(rleaf0 nz nx).
    + intros s s' Hs Hb. refine (post_elim (SInv false max_step) _ s' _ Hb). clear Hb s'.
      open_state s Hs. cbv beta.
      vwalk ltac:(mhook z x) ltac:(sinv_leaf ltac:(fail)).
    + intros s Hs. open_state s Hs. cbv beta. rwalk ltac:(mhook z x) ltac:(rleaf0 nz nx).
Qed.
End Core2Safe.

(* ---------- _ray2d and the single-point form of ray2d ---------- *)
Section Wrappers2.
Context {T : Type} `{Num T}.
Context {Laws : RayLaws (T := T)}.
Variables (z x zgrad xgrad : arr T) (nz nx : Z).
Hypothesis (Az : axisn z nz) (Ax : axisn x nx) (Hnz : 2 <= nz) (Hnx : 2 <= nx).
Hypothesis (Szg : shape zgrad = [nz; nx]) (Sxg : shape xgrad = [nz; nx]).

Theorem ray2d_ok_true fuel zend xend zsrc xsrc stepsize max_step hg :
  1 <= max_step -> (hg = true -> axis_min z nz /\ axis_min x nx) ->
  u_ray2d_v_ok true false fuel z x zgrad xgrad zend xend zsrc xsrc stepsize max_step hg = true.
Proof.
  intros Hms Hmin. unfold u_ray2d_v_ok.
  rewrite (ray2d_core_ok_true z x zgrad xgrad nz nx Az Ax Hnz Hnx Szg Sxg) by assumption. cbn [andb].
  destruct (u_ray2d_core_v _ _ _ _ _ _ _ _ _ _ _ _) as [[ray count]| |]; cbn [res_ok]; try reflexivity.
  cbv beta zeta. destruct (_ =? -1); [reflexivity|]. destruct (_ =? -2); reflexivity.
Qed.

(* ray2d(z, x, zgrad, xgrad, p, src, ...) with a single point p: `ray[count::-1]` takes rows count..0 *)
Theorem ray2d_1_ok_true fuel (p src : arr T) stepsize max_step hg :
  shape p = [2] -> shape src = [2] ->
  1 <= max_step -> (hg = true -> axis_min z nz /\ axis_min x nx) ->
  ray2d_1_ok true false fuel z x zgrad xgrad p src stepsize max_step hg = true.
Proof.
  intros Sp Ss Hms Hmin. unfold ray2d_1_ok.
  rewrite (ray2d_ok_true fuel) by assumption.
  unfold obI. rewrite !(inb1_true p 2), !(inb1_true src 2) by (auto; lia). cbn [andb].
  unfold u_ray2d_v.
  destruct (u_ray2d_core_v _ _ _ _ _ _ _ _ _ _ _ _) as [[ray count]| |] eqn:Ec; cbn [rbind res_ok];
    try reflexivity.
  destruct (ray2d_core_count_range _ _ _ _ _ _ _ _ _ _ _ _ _ _ Ec) as [Hr Hsh].
  cbv beta zeta. cbn [fst snd].
  destruct (Z.eqb_spec count (-1)); [reflexivity|]. destruct (Z.eqb_spec count (-2)); [reflexivity|].
  cbn [res_ok fst snd]. rewrite (dim_0 _ _ _ Hsh).
  apply andb_true_intro. split; [apply Z.leb_le|apply Z.ltb_lt]; lia.
Qed.
End Wrappers2.

(* ---------- the laws hold for the two numeric types in use ---------- *)
#[global] Instance RayLawsR : RayLaws (T := R).
Proof. split; [exact le_lt_law_R|]. intros a. simpl. apply Rltb_false. lra. Qed.
#[global] Instance RayLawsF : RayLaws (T := PrimFloat.float).
Proof. split; [exact le_lt_law_F|]. intros a. simpl. apply NumFLaws.ltb_irrefl. Qed.

(* ---------- instances for the two numeric types ---------- *)
Corollary ray2d_core_ok_true_F (z x zgrad xgrad : arr PrimFloat.float) nz nx fuel zend xend zsrc xsrc stepsize
          max_step hg :
  axisn z nz -> axisn x nx -> 2 <= nz -> 2 <= nx -> shape zgrad = [nz; nx] -> shape xgrad = [nz; nx] ->
  1 <= max_step -> (hg = true -> axis_min z nz /\ axis_min x nx) ->
  u_ray2d_core_v_ok true false fuel z x zgrad xgrad zend xend zsrc xsrc stepsize max_step hg = true.
Proof. intros. apply (ray2d_core_ok_true z x zgrad xgrad nz nx); assumption. Qed.
Corollary ray2d_core_ok_true_R (z x zgrad xgrad : arr R) nz nx fuel zend xend zsrc xsrc stepsize max_step hg :
  axisn z nz -> axisn x nx -> 2 <= nz -> 2 <= nx -> shape zgrad = [nz; nx] -> shape xgrad = [nz; nx] ->
  1 <= max_step -> (hg = true -> axis_min z nz /\ axis_min x nx) ->
  u_ray2d_core_v_ok true false fuel z x zgrad xgrad zend xend zsrc xsrc stepsize max_step hg = true.
Proof. intros. apply (ray2d_core_ok_true z x zgrad xgrad nz nx); assumption. Qed.

(* an ascending real axis satisfies axis_min *)
Lemma axis_min_of_ascending_R (ax : arr R) n :
  (forall k, 0 <= k < n -> (get 0%R ax [0%Z] <= get 0%R ax [k])%R) -> axis_min ax n.
Proof. intros Hasc k Hk. unfold ge0. simpl. apply Rltb_false. apply Hasc. exact Hk. Qed.

(* ---------- the hypotheses are needed ---------- *)
Local Open Scope float_scope.
Definition ex_ax : arr float := mkarr [2%Z] [0; 1].
Definition ex_grad : arr float := mkarr [2%Z; 2%Z] [1; 1; 1; 1].
Definition ex_zero : arr float := mkarr [2%Z; 2%Z] [0; 0; 0; 0].

(* max_step = 0: the end point is stored in row 0 of an empty buffer *)
Example ray2d_core_ok_max_step_0_refuted :
  u_ray2d_core_v_ok true false 5%nat ex_ax ex_ax ex_grad ex_grad 0.5 0.5 0 0 0.25 0%Z false = false.
Proof. vm_compute. reflexivity. Qed.
Example ray2d_core_ok_max_step_1 :
  u_ray2d_core_v_ok true false 5%nat ex_ax ex_ax ex_grad ex_grad 0.5 0.5 0 0 0.25 1%Z false = true.
Proof. vm_compute. reflexivity. Qed.

(* honor_grid with an axis whose second node is (slightly) below the first one: the grid magnetism moves the
   point below z[0] and the cell index becomes -1 *)
Definition ex_bad_ax : arr float := mkarr [3%Z] [0; -0x1p-30; 1].
Definition ex_grad32 : arr float := mkarr [3%Z; 2%Z] [1; 1; 1; 1; 1; 1].
Definition ex_zero32 : arr float := mkarr [3%Z; 2%Z] [0; 0; 0; 0; 0; 0].
Example ray2d_core_ok_axis_min_refuted :
  u_ray2d_core_v_ok true false 5%nat ex_bad_ax ex_ax ex_grad32 ex_zero32 0.5 0.5 0.5 0 0.375 10%Z true = false.
Proof. vm_compute. reflexivity. Qed.
Example ray2d_core_ok_axis_min_hyps :
  axisn ex_bad_ax 3 /\ axisn ex_ax 2 /\ shape ex_grad32 = [3%Z; 2%Z] /\ shape ex_zero32 = [3%Z; 2%Z].
Proof. repeat split. Qed.
Local Close Scope float_scope.

(* ------------------------------------------------------------------------------------------ *)
(* 4. exact arithmetic: range of `shrink`, and where its minimum is attained                    *)
(* ------------------------------------------------------------------------------------------ *)
Section ShrinkR.
Local Open Scope R_scope.

(* the selected quotients, on lists *)
Definition qlist (lp lb ld : list R) (lm : list bool) : list R :=
  zipw Rdiv (zipw Rminus (mask_list lp lm) (mask_list lb lm)) (mask_list ld lm).

Lemma dat_quot (p b d : arr R) (m : arr bool) : dat (quot p b d m) = qlist (dat p) (dat b) (dat d) (dat m).
Proof. reflexivity. Qed.

Lemma mask_list_nil_r {A} (l : list A) : mask_list l [] = [].
Proof. destruct l; reflexivity. Qed.

Lemma zipw_nil_r {A B C} (f : A -> B -> C) (l : list A) : zipw f l [] = [].
Proof. destruct l; reflexivity. Qed.

(* every selected quotient comes from a selected position *)
Lemma qlist_In (lp lb ld : list R) : forall lm q,
  In q (qlist lp lb ld lm) ->
  exists k : nat, (k < length lp)%nat /\ (k < length lb)%nat /\ (k < length ld)%nat /\
                  nth k lm false = true /\ q = (nth k lp 0 - nth k lb 0) / nth k ld 0.
Proof.
  revert lb ld. induction lp as [|p lp IH]; intros lb ld lm q Hq.
  - destruct lm; contradiction.
  - destruct lm as [|m lm]; [contradiction|].
    destruct lb as [|b lb].
    { unfold qlist in Hq. destruct m; cbn [mask_list] in Hq; rewrite zipw_nil_r in Hq; contradiction. }
    destruct ld as [|d ld].
    { unfold qlist in Hq. destruct m; cbn [mask_list] in Hq; rewrite zipw_nil_r in Hq; contradiction. }
    destruct m.
    + unfold qlist in Hq. cbn [mask_list zipw] in Hq. destruct Hq as [<-|Hq].
      * exists 0%nat. cbn. repeat split; try lia.
      * destruct (IH lb ld lm q Hq) as (k & H1 & H2 & H3 & H4 & H5).
        exists (Datatypes.S k). cbn. repeat split; try lia; assumption.
    + unfold qlist in Hq. cbn [mask_list] in Hq.
      destruct (IH lb ld lm q Hq) as (k & H1 & H2 & H3 & H4 & H5).
      exists (Datatypes.S k). cbn. repeat split; try lia; assumption.
Qed.

Lemma nth_zipw {A B C} (f : A -> B -> C) da db dc : forall l1 l2 k,
  (k < length l1)%nat -> (k < length l2)%nat -> nth k (zipw f l1 l2) dc = f (nth k l1 da) (nth k l2 db).
Proof.
  induction l1 as [|a l1 IH]; intros [|b l2] [|k] H1 H2; cbn in *; try lia; auto. apply IH; lia.
Qed.

Lemma nth_zipw_true {A B} (f : A -> B -> bool) : forall l1 l2 k,
  nth k (zipw f l1 l2) false = true -> (k < length l1)%nat /\ (k < length l2)%nat.
Proof.
  induction l1 as [|a l1 IH]; intros [|b l2] [|k] Hk; cbn in *; try discriminate; try lia.
  apply IH in Hk. lia.
Qed.

(* the minimum of a non-empty list is one of its entries *)
Lemma fold_pymin2_In (t : list R) : forall e, In (fold_left pymin2 t e) (e :: t).
Proof.
  induction t as [|a t IH]; intros e; cbn [fold_left]; [left; reflexivity|].
  destruct (IH (pymin2 e a)) as [E|E].
  - rewrite <- E. unfold pymin2. destruct (nltb a e); [right; left|left]; reflexivity.
  - right; right; exact E.
Qed.
Lemma amin_In (a : arr R) : dat a <> [] -> In (amin a) (dat a).
Proof. unfold amin. destruct (dat a) as [|e t]; [congruence|]. intros _. apply fold_pymin2_In. Qed.

Lemma pymin2_R_cases (a b : R) : (pymin2 a b = a \/ pymin2 a b = b).
Proof. unfold pymin2. destruct (nltb b a); auto. Qed.

(* one selected position of the lower / upper mask, inside the box *)
Lemma low_quot (p d l : R) : l <= p -> Rltb (p - d) l = true ->
  0 < d /\ 0 <= (p - l) / d < 1 /\ p - (p - l) / d * d = l.
Proof.
  intros Hb Hm. apply Rltb_true in Hm. assert (Hd : 0 < d) by lra.
  pose proof (Rinv_0_lt_compat d Hd) as Hi. assert (E : d * / d = 1) by (field; lra).
  split; [exact Hd|]. unfold Rdiv. split; [split; nra|]. field. lra.
Qed.
Lemma up_quot (p d u : R) : p <= u -> Rltb u (p - d) = true ->
  d < 0 /\ 0 <= (p - u) / d < 1 /\ p - (p - u) / d * d = u.
Proof.
  intros Hb Hm. apply Rltb_true in Hm. assert (Hd : d < 0) by lra.
  pose proof (Rinv_lt_0_compat d Hd) as Hi. assert (E : d * / d = 1) by (field; lra).
  split; [exact Hd|]. unfold Rdiv. split; [split; nra|]. field. lra.
Qed.

Lemma Forall2_nth_Rle : forall (l1 l2 : list R) k, Forall2 Rle l1 l2 -> (k < length l1)%nat ->
  nth k l1 0 <= nth k l2 0.
Proof.
  intros l1 l2 k HF. revert k. induction HF as [|a b l1 l2 Hab HF IH]; intros [|k] Hk; cbn in *; try lia; auto.
  apply IH. lia.
Qed.

(* description of a value returned through one of the two masks *)
Definition at_low (lp ld ll : list R) (q : R) : Prop :=
  exists k : nat, (k < length lp)%nat /\ (k < length ld)%nat /\ (k < length ll)%nat /\
    0 < nth k ld 0 /\ 0 <= q < 1 /\ q = (nth k lp 0 - nth k ll 0) / nth k ld 0 /\
    nth k lp 0 - q * nth k ld 0 = nth k ll 0.
Definition at_up (lp ld lu : list R) (q : R) : Prop :=
  exists k : nat, (k < length lp)%nat /\ (k < length ld)%nat /\ (k < length lu)%nat /\
    nth k ld 0 < 0 /\ 0 <= q < 1 /\ q = (nth k lp 0 - nth k lu 0) / nth k ld 0 /\
    nth k lp 0 - q * nth k ld 0 = nth k lu 0.

Lemma low_mask_In (lp ld ll : list R) q :
  Forall2 Rle ll lp ->
  In q (qlist lp ll ld (zipw Rltb (zipw Rminus lp ld) ll)) -> at_low lp ld ll q.
Proof.
  intros Hbox Hq. destruct (qlist_In _ _ _ _ _ Hq) as (k & K1 & K2 & K3 & Km & ->).
  pose proof (Forall2_nth_Rle _ _ k Hbox K2) as Hle.
  rewrite (nth_zipw Rltb 0 0 false) in Km by (rewrite ?zipw_length; lia).
  rewrite (nth_zipw Rminus 0 0 0) in Km by lia.
  destruct (low_quot _ _ _ Hle Km) as (Hd & Hr & He).
  exists k. repeat split; try assumption; apply Hr.
Qed.
Lemma up_mask_In (lp ld lu : list R) q :
  Forall2 Rle lp lu ->
  In q (qlist lp lu ld (zipw ngtb (zipw Rminus lp ld) lu)) -> at_up lp ld lu q.
Proof.
  intros Hbox Hq. destruct (qlist_In _ _ _ _ _ Hq) as (k & K1 & K2 & K3 & Km & ->).
  pose proof (Forall2_nth_Rle _ _ k Hbox K1) as Hle.
  rewrite (nth_zipw ngtb 0 0 false) in Km by (rewrite ?zipw_length; lia).
  rewrite (nth_zipw Rminus 0 0 0) in Km by lia.
  destruct (up_quot _ _ _ Hle Km) as (Hd & Hr & He).
  exists k. repeat split; try assumption; apply Hr.
Qed.

Lemma quot_nonempty (p b d : arr R) (m : arr bool) :
  (length (dat m) <= length (dat p))%nat -> (length (dat m) <= length (dat b))%nat ->
  (length (dat m) <= length (dat d))%nat -> aany m = true -> dat (quot p b d m) <> [].
Proof.
  intros Hp Hb Hd Ha. destruct (quot_obligations p b d m Hp Hb Hd) as (_ & _ & Hq).
  specialize (Hq Ha). apply Z.ltb_lt in Hq. unfold alen in Hq. intros E. rewrite E in Hq. cbn in Hq. lia.
Qed.

(* The value of shrink when the current point lies in the box lower <= pcur <= upper: either no component of
   pcur - delta leaves the box and the factor is 1, or the factor is one of the quotients: it lies in [0, 1)
   and moves the corresponding component exactly onto the boundary it was about to cross. *)
Theorem shrink_attained (pcur delta lower upper : arr R) :
  Forall2 Rle (dat lower) (dat pcur) -> Forall2 Rle (dat pcur) (dat upper) ->
  let fac := FteikCommon.shrink pcur delta lower upper in
  (fac = 1 /\ aany (amap2 nltb (amap2 nsub pcur delta) lower) = false /\
              aany (amap2 ngtb (amap2 nsub pcur delta) upper) = false) \/
  at_low (dat pcur) (dat delta) (dat lower) fac \/ at_up (dat pcur) (dat delta) (dat upper) fac.
Proof.
  intros Hl Hu.
  destruct (shrink_mask_lengths pcur delta lower upper) as [(L1 & L2 & L3) (U1 & U2 & U3)].
  cbv zeta in L1, L2, L3, U1, U2, U3.
  pose proof (quot_nonempty pcur lower delta _ L1 L2 L3) as NL.
  pose proof (quot_nonempty pcur upper delta _ U1 U2 U3) as NU.
  assert (AL : forall q, In q (dat (quot pcur lower delta (amap2 nltb (amap2 nsub pcur delta) lower))) ->
                         at_low (dat pcur) (dat delta) (dat lower) q).
  { intros q Hq. rewrite dat_quot in Hq. apply low_mask_In; assumption. }
  assert (AU : forall q, In q (dat (quot pcur upper delta (amap2 ngtb (amap2 nsub pcur delta) upper))) ->
                         at_up (dat pcur) (dat delta) (dat upper) q).
  { intros q Hq. rewrite dat_quot in Hq. apply up_mask_In; assumption. }
  unfold quot in *. unfold FteikCommon.shrink. cbv zeta.
  destruct (aany (amap2 nltb (amap2 nsub pcur delta) lower)) eqn:El;
  destruct (aany (amap2 ngtb (amap2 nsub pcur delta) upper)) eqn:Eu; cbn [andb negb].
  - match goal with |- context [pymin2 ?a ?b] => destruct (pymin2_R_cases a b) as [E|E]; rewrite E end.
    + right; left. apply AL, amin_In, NL. reflexivity.
    + right; right. apply AU, amin_In, NU. reflexivity.
  - right; left. apply AL, amin_In, NL. reflexivity.
  - right; right. apply AU, amin_In, NU. reflexivity.
  - left. repeat split; reflexivity.
Qed.

Lemma Forall2_len {A B} (R : A -> B -> Prop) (l1 : list A) (l2 : list B) :
  Forall2 R l1 l2 -> length l1 = length l2.
Proof. induction 1; cbn; congruence. Qed.

Lemma existsb_false_nth (m : list bool) : forall k, existsb (fun b => b) m = false -> nth k m false = false.
Proof.
  induction m as [|b m IH]; intros [|k] Hm; cbn in *; try reflexivity.
  - destruct b; [discriminate|reflexivity].
  - apply IH. destruct b; [discriminate|exact Hm].
Qed.

(* a factor >= 1 means that the full step stays in the box *)
Theorem shrink_ge1_inside (pcur delta lower upper : arr R) :
  Forall2 Rle (dat lower) (dat pcur) -> Forall2 Rle (dat pcur) (dat upper) ->
  1 <= FteikCommon.shrink pcur delta lower upper ->
  FteikCommon.shrink pcur delta lower upper = 1 /\
  forall k : nat, (k < length (dat pcur))%nat -> (k < length (dat delta))%nat ->
    nth k (dat lower) 0 <= nth k (dat pcur) 0 - nth k (dat delta) 0 <= nth k (dat upper) 0.
Proof.
  intros Hl Hu Hge. destruct (shrink_attained pcur delta lower upper Hl Hu) as [(E & Ml & Mu)|[(k & H)|(k & H)]];
    [|lra|lra].
  split; [exact E|]. intros k Kp Kd.
  pose proof (Forall2_len _ _ _ Hl) as LL. pose proof (Forall2_len _ _ _ Hu) as LU.
  unfold aany in Ml, Mu. cbn [dat amap2] in Ml, Mu.
  apply (existsb_false_nth _ k) in Ml. apply (existsb_false_nth _ k) in Mu.
  rewrite (nth_zipw nltb 0 0 false) in Ml by (rewrite ?zipw_length; lia).
  rewrite (nth_zipw ngtb 0 0 false) in Mu by (rewrite ?zipw_length; lia).
  rewrite (nth_zipw nsub 0 0 0) in Ml, Mu by lia.
  cbn [nltb ngtb nsub NumR] in Ml, Mu. unfold ngtb in Mu. cbn [nltb NumR] in Mu.
  apply Rltb_false in Ml, Mu. lra.
Qed.

Theorem shrink_range (pcur delta lower upper : arr R) :
  Forall2 Rle (dat lower) (dat pcur) -> Forall2 Rle (dat pcur) (dat upper) ->
  0 <= FteikCommon.shrink pcur delta lower upper <= 1.
Proof.
  intros Hl Hu. destruct (shrink_attained pcur delta lower upper Hl Hu) as [(E & _)|[(k & H)|(k & H)]].
  - rewrite E. lra.
  - lra.
  - lra.
Qed.

(* the 2-vector form used by the ray tracer *)
Lemma vec2_Forall2 (a b : arr R) :
  vec2 a -> vec2 b -> get 0 a [0%Z] <= get 0 b [0%Z] -> get 0 a [1%Z] <= get 0 b [1%Z] ->
  Forall2 Rle (dat a) (dat b).
Proof.
  intros [Sa La] [Sb Lb]. destruct a as [sa la], b as [sb lb]. cbn in *. subst sa sb.
  destruct la as [|a0 [|a1 [|]]]; try discriminate. destruct lb as [|b0 [|b1 [|]]]; try discriminate.
  unfold get, flat. cbn. intros H0 H1. constructor; [exact H0|]. constructor; [exact H1|]. constructor.
Qed.

Corollary shrink_range_2d (pcur delta lower upper : arr R) :
  vec2 pcur -> vec2 lower -> vec2 upper ->
  get 0 lower [0%Z] <= get 0 pcur [0%Z] <= get 0 upper [0%Z] ->
  get 0 lower [1%Z] <= get 0 pcur [1%Z] <= get 0 upper [1%Z] ->
  0 <= FteikCommon.shrink pcur delta lower upper <= 1.
Proof. intros Vp Vl Vu H0 H1. apply shrink_range; apply vec2_Forall2; tauto. Qed.
End ShrinkR.

(* ------------------------------------------------------------------------------------------ *)
(* 4b. grid-honouring mode, exact arithmetic: every stored vertex lies on a grid line           *)
(* ------------------------------------------------------------------------------------------ *)
Section GridR.
Local Open Scope R_scope.

(* v is a node of the axis *)
Definition on_grid (ax : arr R) (n : Z) (v : R) : Prop := exists i : Z, (0 <= i < n)%Z /\ v = get 0 ax [i].
(* every node lies between the first and the last one (any ascending axis) *)
Definition axis_hull (ax : arr R) (n : Z) : Prop :=
  forall k : Z, (0 <= k < n)%Z -> get 0 ax [0%Z] <= get 0 ax [k] <= get 0 ax [(n - 1)%Z].
Definition in_hull (ax : arr R) (n : Z) (v : R) : Prop := get 0 ax [0%Z] <= v <= get 0 ax [(n - 1)%Z].

Lemma on_grid_hull ax n v : axis_hull ax n -> on_grid ax n v -> in_hull ax n v.
Proof. intros Hh (i & Hi & ->). apply Hh. exact Hi. Qed.

Lemma ge0_R (ax : arr R) (v : R) : ge0 ax v <-> get 0 ax [0%Z] <= v.
Proof. unfold ge0. cbn [nltb nofZ NumR]. apply Rltb_false. Qed.

Lemma clamp_R_in (lo hi a : R) : lo <= hi -> lo <= pymin2 (pymax2 a lo) hi <= hi.
Proof.
  intros Hle. unfold pymin2, pymax2. cbn [nltb NumR].
  destruct (Rltb a lo) eqn:E1; [apply Rltb_true in E1|apply Rltb_false in E1];
    match goal with |- context [Rltb ?u ?v] => destruct (Rltb u v) eqn:E2 end;
    try (apply Rltb_true in E2); try (apply Rltb_false in E2); lra.
Qed.
Lemma clamp_R_id (lo hi a : R) : lo <= a <= hi -> pymin2 (pymax2 a lo) hi = a.
Proof.
  intros Ha. unfold pymin2, pymax2. cbn [nltb NumR].
  destruct (Rltb a lo) eqn:E1; [apply Rltb_true in E1; lra|].
  destruct (Rltb hi a) eqn:E2; [apply Rltb_true in E2; lra|reflexivity].
Qed.

(* the cell boundaries recomputed from a coordinate inside the hull *)
Lemma cell_facts_R (ax : arr R) n q :
  axisn ax n -> (1 <= n)%Z -> in_hull ax n q ->
  let i := (searchsorted_right ax q - 1)%Z in
  let lo := if neqb q (get (nofZ 0) ax [i]) then get (nofZ 0) ax [Z.max (i - 1) 0] else get (nofZ 0) ax [i] in
  let up := get (nofZ 0) ax [Z.min (i + 1) (dim ax 0%nat - 1)] in
  on_grid ax n lo /\ on_grid ax n up /\ lo <= q <= up.
Proof.
  intros A Hn [Hlo Hhi] i lo up. destruct A as [S L].
  assert (Dn : dim ax 0%nat = n) by (apply (dim_0 _ _ _ S)).
  assert (Ri : (0 <= i <= n - 1)%Z).
  { apply (cell_index_range ax n q (conj S L)); [lia|]. apply ge0_R. exact Hlo. }
  assert (Below : forall k : Z, (0 <= k <= i)%Z -> get 0 ax [k] <= q).
  { intros k Hk. apply Rltb_false.
    assert (Hk' : (0 <= k < searchsorted_right ax q)%Z) by (unfold i in Hk; lia).
    exact (SSR.ssr_below 0 ax n q k (conj S L) Hk'). }
  unfold lo, up. cbn [nofZ NumR]. rewrite Dn. split; [|split; [|split]].
  - destruct (neqb _ _); eexists; (split; [|reflexivity]); lia.
  - eexists; (split; [|reflexivity]); lia.
  - destruct (neqb _ _); apply Below; lia.
  - destruct (Z_lt_le_dec (i + 1) n) as [Hlt|Hge].
    + replace (Z.min (i + 1) (n - 1)) with (searchsorted_right ax q) by (unfold i in *; lia).
      apply Rlt_le. apply Rltb_true.
      assert (Hlt' : (searchsorted_right ax q < n)%Z) by (unfold i in Hlt; lia).
      exact (SSR.ssr_at 0 ax n q (conj S L) Hlt').
    + replace (Z.min (i + 1) (n - 1)) with (n - 1)%Z by lia. exact Hhi.
Qed.

Lemma get_nth2 (a : arr R) : vec2 a ->
  get 0 a [0%Z] = nth 0 (dat a) 0 /\ get 0 a [1%Z] = nth 1 (dat a) 0.
Proof.
  intros [S L]. destruct a as [sa la]. cbn in *. subst sa.
  destruct la as [|a0 [|a1 [|]]]; try discriminate. split; reflexivity.
Qed.

Lemma step_point (p d : arr R) (fac : R) : vec2 p -> vec2 d ->
  let p0 := amap2 nsub p (amap (fun e : R => nmul fac e) d) in
  vec2 p0 /\ get 0 p0 [0%Z] = get 0 p [0%Z] - fac * get 0 d [0%Z] /\
  get 0 p0 [1%Z] = get 0 p [1%Z] - fac * get 0 d [1%Z].
Proof.
  intros [Sp Lp] [Sd Ld] p0. destruct p as [sp lp], d as [sd ld]. cbn in *. subst sp sd.
  destruct lp as [|a0 [|a1 [|]]]; try discriminate. destruct ld as [|b0 [|b1 [|]]]; try discriminate.
  repeat split.
Qed.

Variables (z x : arr R) (nz nx : Z) (zend xend : R) (max_step : Z).
Hypothesis (Az : axisn z nz) (Ax : axisn x nx) (Hnz : (1 <= nz)%Z) (Hnx : (1 <= nx)%Z).
Hypothesis (Hz : axis_hull z nz) (Hx : axis_hull x nx).

Definition on_line (r : arr R) (k : Z) : Prop :=
  on_grid z nz (get 0 r [k; 0%Z]) \/ on_grid x nx (get 0 r [k; 1%Z]).

Definition GInv (s : @St2 R) : Prop :=
  ray_ok zend xend max_step s /\ vec2 (s_pcur s) /\ vec2 (s_delta s) /\ vec2 (s_lower s) /\ vec2 (s_upper s) /\
  on_grid z nz (get 0 (s_lower s) [0%Z]) /\ on_grid z nz (get 0 (s_upper s) [0%Z]) /\
  on_grid x nx (get 0 (s_lower s) [1%Z]) /\ on_grid x nx (get 0 (s_upper s) [1%Z]) /\
  get 0 (s_lower s) [0%Z] <= get 0 (s_pcur s) [0%Z] <= get 0 (s_upper s) [0%Z] /\
  get 0 (s_lower s) [1%Z] <= get 0 (s_pcur s) [1%Z] <= get 0 (s_upper s) [1%Z] /\
  (forall k : Z, (1 <= k < s_count s)%Z -> on_line (s_ray s) k).

Lemma Dz : dim z 0%nat = nz. Proof. apply (dim_0 _ _ _ (proj1 Az)). Qed.
Lemma Dx : dim x 0%nat = nx. Proof. apply (dim_0 _ _ _ (proj1 Ax)). Qed.

(* the two clamps *)
Lemma clamp2_R (p0 : arr R) : vec2 p0 ->
  let p1 := set p0 [0%Z] (pymin2 (pymax2 (get (nofZ 0) p0 [0%Z]) (get (nofZ 0) z [0%Z]))
                                 (get (nofZ 0) z [(dim z 0%nat - 1)%Z])) in
  let p2 := set p1 [1%Z] (pymin2 (pymax2 (get (nofZ 0) p1 [1%Z]) (get (nofZ 0) x [0%Z]))
                                 (get (nofZ 0) x [(dim x 0%nat - 1)%Z])) in
  vec2 p2 /\
  get 0 p2 [0%Z] = pymin2 (pymax2 (get 0 p0 [0%Z]) (get 0 z [0%Z])) (get 0 z [(nz - 1)%Z]) /\
  get 0 p2 [1%Z] = pymin2 (pymax2 (get 0 p0 [1%Z]) (get 0 x [0%Z])) (get 0 x [(nx - 1)%Z]).
Proof.
  intros Vp p1 p2. unfold p2, p1. clear p1 p2. cbn [nofZ NumR]. rewrite Dz, Dx.
  split; [apply vec2_set, vec2_set, Vp|].
  match goal with |- context [set (set p0 [0%Z] ?a) [1%Z] ?b] =>
    destruct (get_set2 0 p0 a b Vp) as [G0 G1]; rewrite G0, G1 end.
  split; [reflexivity|].
  destruct (get_set_vec2 0 p0 (pymin2 (pymax2 (get 0 p0 [0%Z]) (get 0 z [0%Z])) (get 0 z [(nz - 1)%Z])) Vp)
    as (_ & E & _). rewrite E. reflexivity.
Qed.

Lemma hull_le ax n : (1 <= n)%Z -> axis_hull ax n -> get 0 ax [0%Z] <= get 0 ax [(n - 1)%Z].
Proof. intros Hn Hh. apply (Hh 0%Z). lia. Qed.

(* The vertex computed by an iteration with fac < 1, BEFORE the 1e-8 grid magnetism: on the axis that attains the
   minimum in shrink its coordinate is exactly the lower or the upper boundary of the current cell. *)
Lemma vertex_on_grid_line_2d (p d l u : arr R) (fac : R) (p0 p1 p2 : arr R) :
  vec2 p -> vec2 d -> vec2 l -> vec2 u ->
  get 0 l [0%Z] <= get 0 p [0%Z] <= get 0 u [0%Z] -> get 0 l [1%Z] <= get 0 p [1%Z] <= get 0 u [1%Z] ->
  in_hull z nz (get 0 l [0%Z]) -> in_hull z nz (get 0 u [0%Z]) ->
  in_hull x nx (get 0 l [1%Z]) -> in_hull x nx (get 0 u [1%Z]) ->
  fac = FteikCommon.shrink p d l u -> fac < 1 ->
  p0 = amap2 nsub p (amap (fun e : R => nmul fac e) d) ->
  p1 = set p0 [0%Z] (pymin2 (pymax2 (get (nofZ 0) p0 [0%Z]) (get (nofZ 0) z [0%Z]))
                            (get (nofZ 0) z [(dim z 0%nat - 1)%Z])) ->
  p2 = set p1 [1%Z] (pymin2 (pymax2 (get (nofZ 0) p1 [1%Z]) (get (nofZ 0) x [0%Z]))
                            (get (nofZ 0) x [(dim x 0%nat - 1)%Z])) ->
  0 <= fac /\
  ((get 0 p2 [0%Z] = get 0 l [0%Z] \/ get 0 p2 [0%Z] = get 0 u [0%Z]) \/
   (get 0 p2 [1%Z] = get 0 l [1%Z] \/ get 0 p2 [1%Z] = get 0 u [1%Z])).
Proof.
  intros Vp Vd Vl Vu B0 B1 Hl0 Hu0 Hl1 Hu1 Efac Hfac Ep0 Ep1 Ep2.
  unfold in_hull in Hl0, Hu0, Hl1, Hu1.
  destruct (step_point p d fac Vp Vd) as (Vp0 & P00 & P01). rewrite <- Ep0 in Vp0, P00, P01.
  destruct (clamp2_R p0 Vp0) as (Vp2 & P20 & P21). cbv zeta in Vp2, P20, P21.
  rewrite <- Ep1 in Vp2, P20, P21. rewrite <- Ep2 in Vp2, P20, P21.
  destruct (get_nth2 p Vp) as [Np0 Np1]. destruct (get_nth2 d Vd) as [Nd0 Nd1].
  destruct (get_nth2 l Vl) as [Nl0 Nl1]. destruct (get_nth2 u Vu) as [Nu0 Nu1].
  assert (Fl : Forall2 Rle (dat l) (dat p)) by (apply vec2_Forall2; tauto).
  assert (Fu : Forall2 Rle (dat p) (dat u)) by (apply vec2_Forall2; tauto).
  split. { rewrite Efac. apply (shrink_range p d l u Fl Fu). }
  destruct (shrink_attained p d l u Fl Fu) as [(E & _)|[(k & K1 & _ & _ & _ & _ & _ & Ke)|(k & K1 & _ & _ & _ & _ & _ & Ke)]];
    rewrite <- Efac in *; [lra| |].
  - rewrite (proj2 Vp) in K1. destruct k as [|[|k]]; [| |lia].
    + left; left. rewrite P20, P00, Np0, Nd0, Ke, <- Nl0. apply clamp_R_id. lra.
    + right; left. rewrite P21, P01, Np1, Nd1, Ke, <- Nl1. apply clamp_R_id. lra.
  - rewrite (proj2 Vp) in K1. destruct k as [|[|k]]; [| |lia].
    + left; right. rewrite P20, P00, Np0, Nd0, Ke, <- Nu0. apply clamp_R_id. lra.
    + right; right. rewrite P21, P01, Np1, Nd1, Ke, <- Nu1. apply clamp_R_id. lra.
Qed.

(* a stored vertex *)
Lemma vertex_step c d0 n0 d l p r u fac p0 p1 p2 p3 body i j l1 l2 u1 u2 r' :
  GInv (c, d0, l, n0, p, r, u) ->
  r' = set_sub r [c] p3 ->
  u2 = set u1 [1%Z] (get (nofZ 0) x [Z.min (j + 1) (dim x 0%nat - 1)]) ->
  u1 = set u [0%Z] (get (nofZ 0) z [Z.min (i + 1) (dim z 0%nat - 1)]) ->
  l2 = set l1 [1%Z] (if neqb (get (nofZ 0) p3 [1%Z]) (get (nofZ 0) x [j])
                     then get (nofZ 0) x [Z.max (j - 1) 0] else get (nofZ 0) x [j]) ->
  l1 = set l [0%Z] (if neqb (get (nofZ 0) p3 [0%Z]) (get (nofZ 0) z [i])
                    then get (nofZ 0) z [Z.max (i - 1) 0] else get (nofZ 0) z [i]) ->
  j = (searchsorted_right x (get (nofZ 0) p3 [1%Z]) - 1)%Z ->
  i = (searchsorted_right z (get (nofZ 0) p3 [0%Z]) - 1)%Z ->
  p3 = for_list (pyrange 0 2 1) body p2 ->
  p2 = set p1 [1%Z] (pymin2 (pymax2 (get (nofZ 0) p1 [1%Z]) (get (nofZ 0) x [0%Z]))
                            (get (nofZ 0) x [(dim x 0%nat - 1)%Z])) ->
  p1 = set p0 [0%Z] (pymin2 (pymax2 (get (nofZ 0) p0 [0%Z]) (get (nofZ 0) z [0%Z]))
                            (get (nofZ 0) z [(dim z 0%nat - 1)%Z])) ->
  p0 = amap2 nsub p (amap (fun e : R => nmul fac e) d) ->
  fac = FteikCommon.shrink p d l u ->
  nltb fac (nofZ 1) = true ->
  vec2 d -> magnet_body l u body -> (c < max_step)%Z ->
  GInv ((c + 1)%Z, d, l2, 0%Z, p3, r', u2).
Proof.
  intros G Er Eu2 Eu1 El2 El1 Ej Ei Ep3 Ep2 Ep1 Ep0 Efac Hfac Vd Hb Hlt.
  pose proof G as (Rok & Vp & _ & Vl & Vu & Gl0 & Gu0 & Gl1 & Gu1 & B0 & B1 & Rows).
  cbn [s_count s_delta s_lower s_nfree s_pcur s_ray s_upper fst snd] in *.
  pose proof (on_grid_hull _ _ _ Hz Gl0) as Hl0. pose proof (on_grid_hull _ _ _ Hz Gu0) as Hu0.
  pose proof (on_grid_hull _ _ _ Hx Gl1) as Hl1. pose proof (on_grid_hull _ _ _ Hx Gu1) as Hu1.
  unfold in_hull in Hl0, Hu0, Hl1, Hu1.
  pose proof (hull_le z nz Hnz Hz) as Zle. pose proof (hull_le x nx Hnx Hx) as Xle.
  cbn [nltb nofZ NumR] in Hfac. apply Rltb_true in Hfac.
  (* the point before clamping *)
  destruct (step_point p d fac Vp Vd) as (Vp0 & P00 & P01). rewrite <- Ep0 in Vp0, P00, P01.
  (* the clamps *)
  destruct (clamp2_R p0 Vp0) as (Vp2 & P20 & P21). cbv zeta in Vp2, P20, P21.
  rewrite <- Ep1 in Vp2, P20, P21. rewrite <- Ep2 in Vp2, P20, P21.
  pose proof (clamp_R_in (get 0 z [0%Z]) (get 0 z [(nz - 1)%Z]) (get 0 p0 [0%Z]) Zle) as C0.
  pose proof (clamp_R_in (get 0 x [0%Z]) (get 0 x [(nx - 1)%Z]) (get 0 p0 [1%Z]) Xle) as C1.
  rewrite <- P20 in C0. rewrite <- P21 in C1.
  (* magnetism *)
  assert (Vp3 : vec2 p3).
  { rewrite Ep3. apply vec2_for_list; [|exact Vp2]. intros ix q Hq.
    destruct (Hb ix q) as [E|[E|E]]; rewrite E; [exact Hq|apply vec2_set; exact Hq|apply vec2_set; exact Hq]. }
  destruct (magnet_for_list l u body p2 Hb Vp2) as [M0 M1]. rewrite <- Ep3 in M0, M1.
  unfold magnet_of in M0, M1. cbn [nofZ NumR] in M0, M1.
  assert (H30 : in_hull z nz (get 0 p3 [0%Z])).
  { unfold in_hull. destruct M0 as [E|[E|E]]; rewrite E; lra. }
  assert (H31 : in_hull x nx (get 0 p3 [1%Z])).
  { unfold in_hull. destruct M1 as [E|[E|E]]; rewrite E; lra. }
  assert (OnL : on_grid z nz (get 0 p3 [0%Z]) \/ on_grid x nx (get 0 p3 [1%Z])).
  { destruct (vertex_on_grid_line_2d p d l u fac p0 p1 p2 Vp Vd Vl Vu B0 B1 Hl0 Hu0 Hl1 Hu1 Efac Hfac Ep0 Ep1 Ep2)
      as [_ [[A|A]|[A|A]]].
    - left. destruct M0 as [E|[E|E]]; rewrite E, ?A; assumption.
    - left. destruct M0 as [E|[E|E]]; rewrite E, ?A; assumption.
    - right. destruct M1 as [E|[E|E]]; rewrite E, ?A; assumption.
    - right. destruct M1 as [E|[E|E]]; rewrite E, ?A; assumption. }
  (* the new cell *)
  pose proof (cell_facts_R z nz (get 0 p3 [0%Z]) Az Hnz H30) as Cz.
  pose proof (cell_facts_R x nx (get 0 p3 [1%Z]) Ax Hnx H31) as Cx.
  cbv zeta in Cz, Cx. cbn [nofZ NumR] in Cz, Cx, Ei, Ej, El1, El2, Eu1, Eu2.
  rewrite <- Ei in Cz. rewrite <- Ej in Cx.
  destruct Cz as (Zlo & Zup & Zbox). destruct Cx as (Xlo & Xup & Xbox).
  assert (Vl2 : vec2 l2) by (rewrite El2, El1; apply vec2_set, vec2_set, Vl).
  assert (Vu2 : vec2 u2) by (rewrite Eu2, Eu1; apply vec2_set, vec2_set, Vu).
  assert (GL : get 0 l2 [0%Z] = (if neqb (get 0 p3 [0%Z]) (get 0 z [i]) then get 0 z [Z.max (i - 1) 0] else get 0 z [i]) /\
               get 0 l2 [1%Z] = (if neqb (get 0 p3 [1%Z]) (get 0 x [j]) then get 0 x [Z.max (j - 1) 0] else get 0 x [j])).
  { rewrite El2, El1. apply get_set2. exact Vl. }
  assert (GU : get 0 u2 [0%Z] = get 0 z [Z.min (i + 1) (dim z 0%nat - 1)] /\
               get 0 u2 [1%Z] = get 0 x [Z.min (j + 1) (dim x 0%nat - 1)]).
  { rewrite Eu2, Eu1. apply get_set2. exact Vu. }
  destruct GL as [GL0 GL1]. destruct GU as [GU0 GU1].
  (* the buffer *)
  destruct (ray_ok_set_sub zend xend max_step (c, d0, l, n0, p, r, u) p3 Rok Hlt Vp3)
    as (R1 & R2 & R3 & R4 & R5 & R6).
  cbn [s_count s_ray fst snd nofZ NumR] in R1, R2, R3, R4, R5, R6. rewrite <- Er in R1, R2, R3, R4, R5, R6.
  unfold GInv. cbn [s_count s_delta s_lower s_nfree s_pcur s_ray s_upper fst snd].
  rewrite GL0, GL1, GU0, GU1.
  split. { destruct Rok as (Hc & _). cbn [s_count fst snd] in Hc. unfold ray_ok.
           cbn [s_count s_ray fst snd nofZ NumR].
           split; [lia|]. split; [exact R1|]. split; [exact R2|]. split; [exact R3|exact R4]. }
  split; [exact Vp3|]. split; [exact Vd|]. split; [exact Vl2|]. split; [exact Vu2|].
  split; [exact Zlo|]. split; [exact Zup|]. split; [exact Xlo|]. split; [exact Xup|].
  split; [exact Zbox|]. split; [exact Xbox|].
  intros k Hk. destruct (Z.eq_dec k c) as [->|Hne].
  - unfold on_line. rewrite R5, R6. exact OnL.
  - destruct Rok as (Hc & Hsh & Hwf & _). cbn [s_count s_ray fst snd] in Hc, Hsh, Hwf.
    unfold on_line. rewrite Er.
    rewrite !(get_set_sub_other 0 r p3 max_step 2 c k) by (auto; try lia; apply Vp3).
    apply Rows. lia.
Qed.

(* a free step (factor >= 1): the point moves by the full step and stays in its cell *)
Lemma free_step c d0 n0 d l p r u fac p0 p1 p2 :
  GInv (c, d0, l, n0, p, r, u) ->
  p2 = set p1 [1%Z] (pymin2 (pymax2 (get (nofZ 0) p1 [1%Z]) (get (nofZ 0) x [0%Z]))
                            (get (nofZ 0) x [(dim x 0%nat - 1)%Z])) ->
  p1 = set p0 [0%Z] (pymin2 (pymax2 (get (nofZ 0) p0 [0%Z]) (get (nofZ 0) z [0%Z]))
                            (get (nofZ 0) z [(dim z 0%nat - 1)%Z])) ->
  p0 = amap2 nsub p (amap (fun e : R => nmul fac e) d) ->
  fac = FteikCommon.shrink p d l u ->
  nltb fac (nofZ 1) = false ->
  vec2 d ->
  GInv (c, d, l, (n0 + 1)%Z, p2, r, u).
Proof.
  intros G Ep2 Ep1 Ep0 Efac Hfac Vd.
  pose proof G as (Rok & Vp & _ & Vl & Vu & Gl0 & Gu0 & Gl1 & Gu1 & B0 & B1 & Rows).
  cbn [s_count s_delta s_lower s_nfree s_pcur s_ray s_upper fst snd] in *.
  pose proof (on_grid_hull _ _ _ Hz Gl0) as Hl0. pose proof (on_grid_hull _ _ _ Hz Gu0) as Hu0.
  pose proof (on_grid_hull _ _ _ Hx Gl1) as Hl1. pose proof (on_grid_hull _ _ _ Hx Gu1) as Hu1.
  unfold in_hull in Hl0, Hu0, Hl1, Hu1.
  cbn [nltb nofZ NumR] in Hfac. apply Rltb_false in Hfac.
  destruct (step_point p d fac Vp Vd) as (Vp0 & P00 & P01). rewrite <- Ep0 in Vp0, P00, P01.
  destruct (get_nth2 p Vp) as [Np0 Np1]. destruct (get_nth2 d Vd) as [Nd0 Nd1].
  destruct (get_nth2 l Vl) as [Nl0 Nl1]. destruct (get_nth2 u Vu) as [Nu0 Nu1].
  assert (Fl : Forall2 Rle (dat l) (dat p)) by (apply vec2_Forall2; tauto).
  assert (Fu : Forall2 Rle (dat p) (dat u)) by (apply vec2_Forall2; tauto).
  rewrite Efac in Hfac. destruct (shrink_ge1_inside p d l u Fl Fu Hfac) as [E1 Hin].
  rewrite <- Efac in E1.
  pose proof (Hin 0%nat ltac:(rewrite (proj2 Vp); lia) ltac:(rewrite (proj2 Vd); lia)) as I0.
  pose proof (Hin 1%nat ltac:(rewrite (proj2 Vp); lia) ltac:(rewrite (proj2 Vd); lia)) as I1.
  rewrite <- Np0, <- Nd0, <- Nl0, <- Nu0 in I0. rewrite <- Np1, <- Nd1, <- Nl1, <- Nu1 in I1.
  destruct (clamp2_R p0 Vp0) as (Vp2 & P20 & P21). cbv zeta in Vp2, P20, P21.
  rewrite <- Ep1 in Vp2, P20, P21. rewrite <- Ep2 in Vp2, P20, P21.
  rewrite clamp_R_id in P20 by (rewrite P00, E1; lra).
  rewrite clamp_R_id in P21 by (rewrite P01, E1; lra).
  unfold GInv. cbn [s_count s_delta s_lower s_nfree s_pcur s_ray s_upper fst snd].
  split; [exact Rok|]. split; [exact Vp2|]. split; [exact Vd|]. split; [exact Vl|]. split; [exact Vu|].
  split; [exact Gl0|]. split; [exact Gu0|]. split; [exact Gl1|]. split; [exact Gu1|].
  rewrite P20, P21, P00, P01, E1. split; [lra|]. split; [lra|]. exact Rows.
Qed.

(* the initial state *)
Lemma init_G :
  in_hull z nz zend -> in_hull x nx xend -> (1 <= max_step)%Z ->
  let i := (searchsorted_right z zend - 1)%Z in
  let j := (searchsorted_right x xend - 1)%Z in
  GInv (1%Z, full [2%Z] (nofZ 0),
        of_list [if neqb zend (get (nofZ 0) z [i]) then get (nofZ 0) z [Z.max (i - 1) 0] else get (nofZ 0) z [i];
                 if neqb xend (get (nofZ 0) x [j]) then get (nofZ 0) x [Z.max (j - 1) 0] else get (nofZ 0) x [j]],
        0%Z, of_list [zend; xend],
        set_sub (full [max_step; 2%Z] (nofZ 0)) [0%Z] (of_list [zend; xend]),
        of_list [get (nofZ 0) z [Z.min (i + 1) (dim z 0%nat - 1)];
                 get (nofZ 0) x [Z.min (j + 1) (dim x 0%nat - 1)]]).
Proof.
  intros Hzend Hxend Hms i j.
  destruct (cell_facts_R z nz zend Az Hnz Hzend) as (Zlo & Zup & Zbox).
  destruct (cell_facts_R x nx xend Ax Hnx Hxend) as (Xlo & Xup & Xbox).
  fold i in Zlo, Zup, Zbox. fold j in Xlo, Xup, Xbox.
  unfold GInv. cbn [s_count s_delta s_lower s_nfree s_pcur s_ray s_upper fst snd].
  split. { apply ray_ok_init; try reflexivity; lia. }
  split; [apply vec2_of_list|]. split; [apply vec2_full|]. split; [apply vec2_of_list|]. split; [apply vec2_of_list|].
  split; [exact Zlo|]. split; [exact Zup|]. split; [exact Xlo|]. split; [exact Xup|].
  split; [exact Zbox|]. split; [exact Xbox|]. intros k Hk. lia.
Qed.

(* after the loop *)
Lemma final_G s1 zsrc xsrc nfm ray count :
  GInv s1 -> fin2 zsrc xsrc max_step nfm s1 = Ok (ray, count) ->
  forall k : Z, (1 <= k < count)%Z -> on_line ray k.
Proof.
  intros (Rok & _ & _ & _ & _ & _ & _ & _ & _ & _ & _ & Rows) Hf k Hk. unfold fin2 in Hf.
  destruct ((max_step <=? s_count s1)%Z || _) eqn:Eb; injection Hf as <- <-; [lia|].
  apply orb_false_elim in Eb. destruct Eb as [Eb _]. apply Z.leb_gt in Eb.
  destruct Rok as (Hc & Hsh & Hwf & _). unfold on_line.
  rewrite !(get_set_sub_other 0 (s_ray s1) (of_list [zsrc; xsrc]) max_step 2 (s_count s1) k)
    by (auto; try lia; reflexivity).
  apply Rows. exact Hk.
Qed.
End GridR.

Lemma core_val_shape {A} (P : A -> Prop) (cz cx : bool) (a rest : A) :
  P a -> (cz = true -> cx = true -> P rest) ->
  P (let condz := cz in let condx := cx in if negb (condz && condx) then a else rest).
Proof. intros Ha Hr. cbv zeta. destruct cz, cx; cbn [andb negb]; auto. Qed.

Lemma rbind_while_post {S A} (G : S -> Prop) (cond : S -> bool) (body : S -> ctl S) (K : S -> res A)
      fuel s0 (r : A) (C : Prop) :
  G s0 -> (forall s, G s -> post G (body s)) -> (forall s1, G s1 -> K s1 = Ok r -> C) ->
  rbind (while_fuel fuel cond body s0) K = Ok r -> C.
Proof.
  intros H0 Hstep HK Hr. destruct (while_fuel fuel cond body s0) as [s1| |] eqn:Ew; cbn [rbind] in Hr;
    try discriminate.
  apply (HK s1); [|exact Hr].
  apply (while_fuel_inv cond body G G) with (4 := H0) (5 := Ew).
  - intros s s' Hs _ Eb. pose proof (Hstep s Hs) as Hp. rewrite Eb in Hp. exact Hp.
  - intros s s' Hs _ Eb. pose proof (Hstep s Hs) as Hp. rewrite Eb in Hp. exact Hp.
  - auto.
Qed.

Section GridMain.
Local Open Scope R_scope.
Variables (z x zgrad xgrad : arr R) (nz nx : Z).
Hypothesis (Az : axisn z nz) (Ax : axisn x nx) (Hnz : (1 <= nz)%Z) (Hnx : (1 <= nx)%Z).
Hypothesis (Hz : axis_hull z nz) (Hx : axis_hull x nx).

Ltac zeta_all t :=
  lazymatch t with
  | (let x := ?v in @?F x) =>
      let v' := eval cbv beta zeta iota delta [u_ray2d_core_v_p1 fst snd] in v in
      let t' := eval cbv beta in (F v') in
      zeta_all t'
  | _ => t
  end.

Ltac ghook x0 Hx :=
  lazymatch type of Hx with _ = ?v =>
    tryif is_var v then subst x0 else
    lazymatch type of x0 with
    | Z => lazymatch v with
           | (searchsorted_right _ _ - 1)%Z => idtac
           | _ => subst x0
           end
    | _ => idtac
    end
  end.

Ltac vec2_chain :=
  repeat (lazymatch goal with
          | |- vec2 ?a => match goal with Ha : a = set _ _ _ |- _ => rewrite Ha; apply vec2_set end
          end);
  assumption.
Ltac budget :=
  match goal with
  | E : ((_ <=? _)%Z || _) = false |- _ =>
      apply orb_false_elim in E; destruct E as [E _]; apply Z.leb_gt in E; exact E
  end.
Ltac mbody :=
  let ix := fresh "ix" in let q := fresh "q" in
  intros ix q; cbv beta zeta;
  repeat (match goal with |- context [if ?c then _ else _] => destruct c end); auto.

Ltac gleaf Hs0 :=
  idtac;
  lazymatch goal with |- post ?Q (_ ?tup) => change (Q tup) end;
  first
  [ exact Hs0
  | eapply vertex_step; first [ exact Hs0 | eassumption | vec2_chain | mbody | budget ]
  | eapply free_step; first [ exact Hs0 | eassumption | vec2_chain ] ].

Theorem ray2d_vertices_on_grid_lines fuel zend xend zsrc xsrc stepsize max_step ray count :
  (1 <= max_step)%Z ->
  u_ray2d_core_v fuel z x zgrad xgrad zend xend zsrc xsrc stepsize max_step true = Ok (ray, count) ->
  forall k : Z, (1 <= k < count)%Z -> on_line z x nz nx ray k.
Proof.
  intros Hms.
  cbv beta delta [u_ray2d_core_v].
  lazymatch goal with |- ?t = ?r -> ?C => change ((fun v => v = r -> C) t) end.
  apply core_val_shape.
  - intros Hc. injection Hc as _ <-. intros k Hk. lia.
  - intros Ez Ex. apply andb_prop in Ez, Ex. destruct Ez as [Ez1 Ez2]. destruct Ex as [Ex1 Ex2].
    cbn [nleb nofZ NumR] in Ez1, Ez2, Ex1, Ex2. apply Rleb_true in Ez1, Ez2, Ex1, Ex2.
    rewrite (dim_0 _ _ _ (proj1 Az)) in Ez2. rewrite (dim_0 _ _ _ (proj1 Ax)) in Ex2.
    lazymatch goal with |- ?t = ?r -> ?C => let t' := zeta_all t in change_no_check (t' = r -> C) end.
    intros Hc. refine (rbind_while_post (GInv z x nz nx zend xend max_step) _ _ _ _ _ _ _ _ _ _ Hc); clear Hc.
    + apply init_G; try assumption; split; assumption.
    + intros s Hs0. pose proof Hs0 as (_ & _ & Vd & _).
      destruct s as [[[[[[c d] l] n] p] r] u].
      cbn [s_delta fst snd] in Vd. cbv beta.
      vwalk ghook ltac:(gleaf Hs0).
    + intros s1 G1 HK.
      exact (final_G z x nz nx zend xend max_step s1 zsrc xsrc (nfree_max2 z x stepsize) ray count G1 HK).
Qed.
End GridMain.

(* an ascending axis satisfies axis_hull *)
Lemma axis_hull_of_ascending (ax : arr R) n :
  (forall i j : Z, 0 <= i <= j -> j < n -> (get 0%R ax [i] <= get 0%R ax [j])%R) -> axis_hull ax n.
Proof. intros Hasc k Hk. split; apply Hasc; lia. Qed.

Print Assumptions shrink_ok_true_gen.
Print Assumptions shrink_ok_true.
Print Assumptions ray2d_core_ok_true.
Print Assumptions ray2d_ok_true.
Print Assumptions ray2d_1_ok_true.
Print Assumptions ray2d_core_ok_true_F.
Print Assumptions ray2d_core_ok_true_R.
Print Assumptions RayLawsR.
Print Assumptions RayLawsF.
Print Assumptions shrink_attained.
Print Assumptions shrink_range.
Print Assumptions shrink_ge1_inside.
Print Assumptions vertex_on_grid_line_2d.
Print Assumptions ray2d_vertices_on_grid_lines.
Print Assumptions ray2d_core_ok_max_step_0_refuted.
Print Assumptions ray2d_core_ok_axis_min_refuted.
