(* C03 / C04, clause "no node is later than any path along grid edges from the source" ("traveltimes are below the
   slowest grid-path bound"), for CONVERGED solutions, over T := R.

   Built on the fixed-point edge theorems Sweep2dProofs.sweep2d_fixed_edges_R / Sweep3dProofs.sweep3d_fixed_edges_R
   (C04_fixed_point_edges_2d_R / _3d_R): at a fixed point of one sweep pass two adjacent nodes differ by at most
   d * smin_edge, smin_edge = smallest slowness of the (clamped) cells adjoining the edge.

   0. line_bound, linecost_le            a sequence whose consecutive terms differ by at most w(c): |u a - u b| <= sum of w
   1. 2D, fixed point of sweep2d (any ttsgn, grad, zsi, xsi, zsa, xsa, vzero):
        grid2_col_bound / grid2_row_bound      |T(a,j) - T(b,j)| <= sum over the crossed edges of dz * smin_zedge (resp. dx, x)
        grid2_L_path_zx / _xz                  T(q) <= T(p) + cost of the L-shaped (monotone) path p -> q, actual edge slownesses
        grid2_path_bound                       T(q) <= T(p) + cost of ANY path along grid edges (gpath2), actual edge slownesses
        grid2_manhattan (+ _abs)               T(q) <= T(p) + smax * (dz |i-i'| + dx |j-j'|), smax >= every cell slowness
   2. 3D: the same with three axes (names grid3_...).
   3. solver level (fteik2d / fteik3d, "converged" = the grid returned for nsweep + 1 equals the one for nsweep):
        fteik2d_converged_grid_bound           any two nodes p, q: T(q) <= T(p) + smax * Manhattan(p, q)
        fteik2d_converged_node_source          source on node (kz,kx): T(i,j) <= smax * (dz |i-kz| + dx |j-kx|)
        fteik2d_converged_node_source_inputs   the same with the hypothesis on the inputs: zsrc = dz * kz, xsrc = dx * kx
        fteik2d_converged_off_node_corner      source off the nodes (iflag = 2): for each corner c of the source cell
                                               T(i,j) <= vzero * dist(c, src) + smax * Manhattan(c, (i,j))
        fteik2d_converged_some_corner          every accepted source: SOME corner c of the source cell gives that bound
        fteik3d_converged_grid_bound, fteik3d_converged_corner (all 8 corners), fteik3d_converged_node_source   3D analogues
   4. non-vacuity:
        plane_wave_fixed2, pw_fixed            the plane wave T(i,j) = s dz i is a fixed point of sweep2d in a homogeneous
                                               medium (any grid size); closed instance 2 x 2 cells / 3 x 3 nodes
        grid2_manhattan_ex, grid2_path_ex      the 2D theorems applied to it; the Manhattan bound is attained along z
        zero_grid_fixed2/3, grid3_manhattan_ex, ptt_zero_fixed_ex   the degenerate all-zero fixed point (every grid, every
                                               non-negative slowness) witnesses the 3D and the pass-level hypotheses
      NOT witnessed: the convergence hypothesis of the solver-level statements (returned grid for nsweep + 1 = returned
      grid for nsweep) on a closed instance over R; real arithmetic cannot be run, and convergence is only proved for
      binary64 (Solve2dProofs.fteik2d_converges).

   No slowness positivity is needed for 1, 2 and the *_grid_bound / off_node_corner statements (only spacings >= 0 resp.
   > 0 and the bound smax); the node-source statements use Pos2d / Pos3d (the source node holds 0), which assume positive
   slowness. *)
From Coq Require Import ZArith List Bool Reals Lra Lia.
From FT.lib Require Import Num Arr ArrLemmas Lower.
From FT.gen Require Import Fteik2d Fteik3d.
From FT.proofs Require Import Sweep2dProofs Sweep3dProofs LayeredR.
From FT.proofs Require Import OperatorsR InitSym NonNeg2d Solve2dProofs Pos2d.
From FT.proofs Require InitExact InitEquiv Solve3dProofs NonNeg3d Pos3d.
Import ListNotations.
Open Scope R_scope.

(* ------------------------------------------------------------------------------------------ *)
(* 0. one grid line                                                                             *)
(* ------------------------------------------------------------------------------------------ *)
Lemma gp_pymin2_le_l (a b : R) : pymin2 a b <= a.
Proof. unfold pymin2. cbn [nltb NumR]. destruct (Rltb b a) eqn:E; [apply Rltb_true in E; lra | lra]. Qed.
Lemma gp_pymin4_le_1 (a b c d : R) : pymin4 a b c d <= a.
Proof.
  unfold pymin4, pymin3.
  eapply Rle_trans; [apply gp_pymin2_le_l|]. eapply Rle_trans; [apply gp_pymin2_le_l|]. apply gp_pymin2_le_l.
Qed.

Lemma zsum_le_const (w : Z -> R) (M : R) (lo hi : Z) :
  (forall c, (lo <= c < hi)%Z -> w c <= M) ->
  forall n a, (lo <= a)%Z -> (a + Z.of_nat n <= hi)%Z -> zsum w a n <= M * IZR (Z.of_nat n).
Proof.
  intros Hw. induction n as [|n IH]; intros a Ha Hn.
  - simpl. lra.
  - change (zsum w a (S n)) with (w a + zsum w (a + 1)%Z n).
    rewrite Nat2Z.inj_succ, succ_IZR.
    pose proof (Hw a ltac:(lia)). pose proof (IH (a + 1)%Z ltac:(lia) ltac:(lia)). lra.
Qed.

Section Line.
Variables (u w : Z -> R) (lo hi : Z).
Hypothesis Hstep : forall c, (lo <= c < hi)%Z -> Rabs (u (c + 1)%Z - u c) <= w c.

Lemma line_up (a : Z) (n : nat) :
  (lo <= a)%Z -> (a + Z.of_nat n <= hi)%Z -> Rabs (u (a + Z.of_nat n)%Z - u a) <= zsum w a n.
Proof.
  intros Ha. induction n as [|n IH]; intros Hn.
  - simpl. replace (a + 0)%Z with a by lia. rewrite Rminus_diag_eq, Rabs_R0 by reflexivity. lra.
  - rewrite zsum_last. specialize (IH ltac:(lia)).
    pose proof (Hstep (a + Z.of_nat n)%Z ltac:(lia)) as St.
    replace (a + Z.of_nat (S n))%Z with (a + Z.of_nat n + 1)%Z by lia.
    apply Rabs_le_inv' in IH. apply Rabs_le_inv' in St. apply Rabs_le. lra.
Qed.

(* the cost of the straight path between positions a and b of the line: sum of w over the edges crossed *)
Definition linecost (a b : Z) : R := zsum w (Z.min a b) (Z.abs_nat (a - b)).

Lemma linecost_sym a b : linecost a b = linecost b a.
Proof. unfold linecost. rewrite Z.min_comm. f_equal. lia. Qed.

Lemma line_bound (a b : Z) : (lo <= a <= hi)%Z -> (lo <= b <= hi)%Z -> Rabs (u a - u b) <= linecost a b.
Proof.
  intros Ha Hb. unfold linecost. destruct (Z_le_gt_dec a b) as [L|L].
  - rewrite Z.min_l by lia. rewrite Rabs_minus_sym.
    replace b with (a + Z.of_nat (Z.abs_nat (a - b)))%Z at 1 by lia. apply line_up; lia.
  - rewrite Z.min_r by lia.
    replace a with (b + Z.of_nat (Z.abs_nat (a - b)))%Z at 1 by lia. apply line_up; lia.
Qed.

Lemma linecost_le (M : R) (a b : Z) :
  (forall c, (lo <= c < hi)%Z -> w c <= M) -> (lo <= a <= hi)%Z -> (lo <= b <= hi)%Z ->
  linecost a b <= M * IZR (Z.abs (a - b)).
Proof.
  intros Hw Ha Hb. unfold linecost. rewrite <- (Zabs2Nat.id_abs (a - b)).
  apply (zsum_le_const w M lo hi Hw); lia.
Qed.
End Line.

(* ------------------------------------------------------------------------------------------ *)
(* 1. 2D                                                                                        *)
(* ------------------------------------------------------------------------------------------ *)
(* paths along grid edges; the cost of an edge is (edge length) * (smallest slowness of the adjoining cells) *)
Section Path2.
Variables (nz nx : Z) (slow : arr R) (dz dx : R).

Inductive gstep2 : Z * Z -> Z * Z -> R -> Prop :=
| gs2_zdn c j : (0 <= c <= nz - 2)%Z -> (0 <= j <= nx - 1)%Z ->
    gstep2 (c, j) ((c + 1)%Z, j) (dz * Sweep2dProofs.smin_zedge nx slow c j)
| gs2_zup c j : (0 <= c <= nz - 2)%Z -> (0 <= j <= nx - 1)%Z ->
    gstep2 ((c + 1)%Z, j) (c, j) (dz * Sweep2dProofs.smin_zedge nx slow c j)
| gs2_xdn i c : (0 <= i <= nz - 1)%Z -> (0 <= c <= nx - 2)%Z ->
    gstep2 (i, c) (i, (c + 1)%Z) (dx * Sweep2dProofs.smin_xedge nz slow i c)
| gs2_xup i c : (0 <= i <= nz - 1)%Z -> (0 <= c <= nx - 2)%Z ->
    gstep2 (i, (c + 1)%Z) (i, c) (dx * Sweep2dProofs.smin_xedge nz slow i c).

(* gpath2 p q l: there is a path of grid edges from node p to node q of total cost l *)
Inductive gpath2 : Z * Z -> Z * Z -> R -> Prop :=
| gp2_nil p : gpath2 p p 0
| gp2_cons p q r w l : gstep2 p q w -> gpath2 q r l -> gpath2 p r (w + l).
End Path2.

Section Grid2.
Variables (nz nx : Z) (tt : arr R) (ttsgn : arr Z) (slow : arr R) (dz dx zsi xsi zsa xsa vzero : R) (grad : bool).
Hypothesis Hnz : (2 <= nz)%Z.
Hypothesis Hnx : (2 <= nx)%Z.
Hypothesis Hok : Sweep2dProofs.okT nz nx tt.
Hypothesis Hfix : fst (sweep2d tt ttsgn slow dz dx zsi xsi zsa xsa vzero nz nx grad) = tt.

Notation T i j := (get 0 tt [i; j]).
Notation wz j := (fun c : Z => dz * Sweep2dProofs.smin_zedge nx slow c j).
Notation wx i := (fun c : Z => dx * Sweep2dProofs.smin_xedge nz slow i c).

(* cost of the straight path between rows a and b in column j / between columns a and b in row i *)
Definition colcost2 (j a b : Z) : R := linecost (wz j) a b.
Definition rowcost2 (i a b : Z) : R := linecost (wx i) a b.

Theorem grid2_col_bound (j a b : Z) :
  (0 <= j <= nx - 1)%Z -> (0 <= a <= nz - 1)%Z -> (0 <= b <= nz - 1)%Z ->
  Rabs (T a j - T b j) <= colcost2 j a b.
Proof.
  intros Hj Ha Hb.
  destruct (Sweep2dProofs.sweep2d_fixed_edges_R nz nx tt ttsgn slow dz dx zsi xsi zsa xsa vzero grad Hnz Hnx Hok Hfix) as [HZ _].
  apply (line_bound (fun c => T c j) (wz j) 0 (nz - 1)); [|lia|lia].
  intros c Hc. apply HZ; lia.
Qed.

Theorem grid2_row_bound (i a b : Z) :
  (0 <= i <= nz - 1)%Z -> (0 <= a <= nx - 1)%Z -> (0 <= b <= nx - 1)%Z ->
  Rabs (T i a - T i b) <= rowcost2 i a b.
Proof.
  intros Hi Ha Hb.
  destruct (Sweep2dProofs.sweep2d_fixed_edges_R nz nx tt ttsgn slow dz dx zsi xsi zsa xsa vzero grad Hnz Hnx Hok Hfix) as [_ HX].
  apply (line_bound (fun c => T i c) (wx i) 0 (nx - 1)); [|lia|lia].
  intros c Hc. apply HX; lia.
Qed.

(* monotone (L-shaped) paths with the actual edge slownesses: first along the column of p, then along the row of q ... *)
Theorem grid2_L_path_zx (i j i' j' : Z) :
  (0 <= i <= nz - 1)%Z -> (0 <= j <= nx - 1)%Z -> (0 <= i' <= nz - 1)%Z -> (0 <= j' <= nx - 1)%Z ->
  T i' j' <= T i j + colcost2 j i i' + rowcost2 i' j j'.
Proof.
  intros Hi Hj Hi' Hj'.
  pose proof (grid2_col_bound j i' i Hj Hi' Hi) as A. pose proof (grid2_row_bound i' j' j Hi' Hj' Hj) as B.
  unfold colcost2 in *. unfold rowcost2 in *. rewrite linecost_sym in A. rewrite linecost_sym in B.
  apply Rabs_le_inv' in A. apply Rabs_le_inv' in B. lra.
Qed.
(* ... or first along the row of p, then along the column of q *)
Theorem grid2_L_path_xz (i j i' j' : Z) :
  (0 <= i <= nz - 1)%Z -> (0 <= j <= nx - 1)%Z -> (0 <= i' <= nz - 1)%Z -> (0 <= j' <= nx - 1)%Z ->
  T i' j' <= T i j + rowcost2 i j j' + colcost2 j' i i'.
Proof.
  intros Hi Hj Hi' Hj'.
  pose proof (grid2_row_bound i j' j Hi Hj' Hj) as A. pose proof (grid2_col_bound j' i' i Hj' Hi' Hi) as B.
  unfold colcost2 in *. unfold rowcost2 in *. rewrite linecost_sym in A. rewrite linecost_sym in B.
  apply Rabs_le_inv' in A. apply Rabs_le_inv' in B. lra.
Qed.

(* ANY path along grid edges (not necessarily monotone), with the actual edge slownesses *)
Theorem grid2_path_bound (p q : Z * Z) (l : R) :
  gpath2 nz nx slow dz dx p q l -> T (fst q) (snd q) <= T (fst p) (snd p) + l.
Proof.
  destruct (Sweep2dProofs.sweep2d_fixed_edges_R nz nx tt ttsgn slow dz dx zsi xsi zsa xsa vzero grad Hnz Hnx Hok Hfix) as [HZ HX].
  induction 1 as [p | p q r w l Sp _ IH]; [lra|].
  assert (St : T (fst q) (snd q) <= T (fst p) (snd p) + w).
  { destruct Sp as [c j Hc Hj | c j Hc Hj | i c Hi Hc | i c Hi Hc]; cbn [fst snd].
    - pose proof (HZ c j Hc Hj) as A. apply Rabs_le_inv' in A. lra.
    - pose proof (HZ c j Hc Hj) as A. apply Rabs_le_inv' in A. lra.
    - pose proof (HX i c Hi Hc) as A. apply Rabs_le_inv' in A. lra.
    - pose proof (HX i c Hi Hc) as A. apply Rabs_le_inv' in A. lra. }
  lra.
Qed.

(* the slowest-path bound: smax bounds the slowness of every cell *)
Variable smax : R.
Hypothesis Hdz : 0 <= dz.
Hypothesis Hdx : 0 <= dx.
Hypothesis Hmax : forall p q, (0 <= p <= nz - 2)%Z -> (0 <= q <= nx - 2)%Z -> get 0 slow [p; q] <= smax.

Lemma smin_zedge_le c j : (0 <= c <= nz - 2)%Z -> (0 <= j <= nx - 1)%Z -> Sweep2dProofs.smin_zedge nx slow c j <= smax.
Proof. intros Hc Hj. unfold Sweep2dProofs.smin_zedge. eapply Rle_trans; [apply gp_pymin2_le_l|]. apply Hmax; lia. Qed.
Lemma smin_xedge_le i c : (0 <= i <= nz - 1)%Z -> (0 <= c <= nx - 2)%Z -> Sweep2dProofs.smin_xedge nz slow i c <= smax.
Proof. intros Hi Hc. unfold Sweep2dProofs.smin_xedge. eapply Rle_trans; [apply gp_pymin2_le_l|]. apply Hmax; lia. Qed.

Lemma colcost2_le j a b :
  (0 <= j <= nx - 1)%Z -> (0 <= a <= nz - 1)%Z -> (0 <= b <= nz - 1)%Z -> colcost2 j a b <= dz * smax * IZR (Z.abs (a - b)).
Proof.
  intros Hj Ha Hb. apply (linecost_le (wz j) 0 (nz - 1)); [|lia|lia].
  intros c Hc. apply Rmult_le_compat_l; [exact Hdz|]. apply smin_zedge_le; lia.
Qed.
Lemma rowcost2_le i a b :
  (0 <= i <= nz - 1)%Z -> (0 <= a <= nx - 1)%Z -> (0 <= b <= nx - 1)%Z -> rowcost2 i a b <= dx * smax * IZR (Z.abs (a - b)).
Proof.
  intros Hi Ha Hb. apply (linecost_le (wx i) 0 (nx - 1)); [|lia|lia].
  intros c Hc. apply Rmult_le_compat_l; [exact Hdx|]. apply smin_xedge_le; lia.
Qed.

Theorem grid2_manhattan (i j i' j' : Z) :
  (0 <= i <= nz - 1)%Z -> (0 <= j <= nx - 1)%Z -> (0 <= i' <= nz - 1)%Z -> (0 <= j' <= nx - 1)%Z ->
  T i' j' <= T i j + smax * (dz * IZR (Z.abs (i' - i)) + dx * IZR (Z.abs (j' - j))).
Proof.
  intros Hi Hj Hi' Hj'.
  pose proof (grid2_L_path_zx i j i' j' Hi Hj Hi' Hj') as A.
  pose proof (colcost2_le j i i' Hj Hi Hi') as B. pose proof (rowcost2_le i' j j' Hi' Hj Hj') as C.
  replace (Z.abs (i' - i)) with (Z.abs (i - i')) by lia. replace (Z.abs (j' - j)) with (Z.abs (j - j')) by lia. lra.
Qed.

Corollary grid2_manhattan_abs (i j i' j' : Z) :
  (0 <= i <= nz - 1)%Z -> (0 <= j <= nx - 1)%Z -> (0 <= i' <= nz - 1)%Z -> (0 <= j' <= nx - 1)%Z ->
  Rabs (T i' j' - T i j) <= smax * (dz * IZR (Z.abs (i' - i)) + dx * IZR (Z.abs (j' - j))).
Proof.
  intros Hi Hj Hi' Hj'.
  pose proof (grid2_manhattan i j i' j' Hi Hj Hi' Hj') as A. pose proof (grid2_manhattan i' j' i j Hi' Hj' Hi Hj) as B.
  replace (Z.abs (i - i')) with (Z.abs (i' - i)) in B by lia. replace (Z.abs (j - j')) with (Z.abs (j' - j)) in B by lia.
  apply Rabs_le. lra.
Qed.
End Grid2.

(* ------------------------------------------------------------------------------------------ *)
(* 2. 3D                                                                                        *)
(* ------------------------------------------------------------------------------------------ *)
Section Path3.
Variables (nz nx ny : Z) (slow : arr R) (dz dx dy : R).

Inductive gstep3 : Z * Z * Z -> Z * Z * Z -> R -> Prop :=
| gs3_zdn c j k : (0 <= c <= nz - 2)%Z -> (0 <= j <= nx - 1)%Z -> (0 <= k <= ny - 1)%Z ->
    gstep3 (c, j, k) ((c + 1)%Z, j, k) (dz * Sweep3dProofs.smin_zedge nx ny slow c j k)
| gs3_zup c j k : (0 <= c <= nz - 2)%Z -> (0 <= j <= nx - 1)%Z -> (0 <= k <= ny - 1)%Z ->
    gstep3 ((c + 1)%Z, j, k) (c, j, k) (dz * Sweep3dProofs.smin_zedge nx ny slow c j k)
| gs3_xdn i c k : (0 <= i <= nz - 1)%Z -> (0 <= c <= nx - 2)%Z -> (0 <= k <= ny - 1)%Z ->
    gstep3 (i, c, k) (i, (c + 1)%Z, k) (dx * Sweep3dProofs.smin_xedge nz ny slow i c k)
| gs3_xup i c k : (0 <= i <= nz - 1)%Z -> (0 <= c <= nx - 2)%Z -> (0 <= k <= ny - 1)%Z ->
    gstep3 (i, (c + 1)%Z, k) (i, c, k) (dx * Sweep3dProofs.smin_xedge nz ny slow i c k)
| gs3_ydn i j c : (0 <= i <= nz - 1)%Z -> (0 <= j <= nx - 1)%Z -> (0 <= c <= ny - 2)%Z ->
    gstep3 (i, j, c) (i, j, (c + 1)%Z) (dy * Sweep3dProofs.smin_yedge nz nx slow i j c)
| gs3_yup i j c : (0 <= i <= nz - 1)%Z -> (0 <= j <= nx - 1)%Z -> (0 <= c <= ny - 2)%Z ->
    gstep3 (i, j, (c + 1)%Z) (i, j, c) (dy * Sweep3dProofs.smin_yedge nz nx slow i j c).

Inductive gpath3 : Z * Z * Z -> Z * Z * Z -> R -> Prop :=
| gp3_nil p : gpath3 p p 0
| gp3_cons p q r w l : gstep3 p q w -> gpath3 q r l -> gpath3 p r (w + l).
End Path3.

Section Grid3.
Variables (nz nx ny : Z) (tt : arr R) (ttsgn : arr Z) (slow : arr R) (dz dx dy : R) (grad : bool).
Hypothesis Hnz : (2 <= nz)%Z.
Hypothesis Hnx : (2 <= nx)%Z.
Hypothesis Hny : (2 <= ny)%Z.
Hypothesis Hok : Sweep3dProofs.okT nz nx ny tt.
Hypothesis Hfix : fst (sweep3d tt ttsgn slow dz dx dy nz nx ny grad) = tt.

Notation T i j k := (get 0 tt [i; j; k]).
Notation wz j k := (fun c : Z => dz * Sweep3dProofs.smin_zedge nx ny slow c j k).
Notation wx i k := (fun c : Z => dx * Sweep3dProofs.smin_xedge nz ny slow i c k).
Notation wy i j := (fun c : Z => dy * Sweep3dProofs.smin_yedge nz nx slow i j c).

Definition zcost3 (j k a b : Z) : R := linecost (wz j k) a b.
Definition xcost3 (i k a b : Z) : R := linecost (wx i k) a b.
Definition ycost3 (i j a b : Z) : R := linecost (wy i j) a b.

Let Edges := Sweep3dProofs.sweep3d_fixed_edges_R nz nx ny tt ttsgn slow dz dx dy grad Hnz Hnx Hny Hok Hfix.

Theorem grid3_z_bound (j k a b : Z) :
  (0 <= j <= nx - 1)%Z -> (0 <= k <= ny - 1)%Z -> (0 <= a <= nz - 1)%Z -> (0 <= b <= nz - 1)%Z ->
  Rabs (T a j k - T b j k) <= zcost3 j k a b.
Proof.
  intros Hj Hk Ha Hb. destruct Edges as (HZ & _ & _).
  apply (line_bound (fun c => T c j k) (wz j k) 0 (nz - 1)); [|lia|lia].
  intros c Hc. apply HZ; lia.
Qed.
Theorem grid3_x_bound (i k a b : Z) :
  (0 <= i <= nz - 1)%Z -> (0 <= k <= ny - 1)%Z -> (0 <= a <= nx - 1)%Z -> (0 <= b <= nx - 1)%Z ->
  Rabs (T i a k - T i b k) <= xcost3 i k a b.
Proof.
  intros Hi Hk Ha Hb. destruct Edges as (_ & HX & _).
  apply (line_bound (fun c => T i c k) (wx i k) 0 (nx - 1)); [|lia|lia].
  intros c Hc. apply HX; lia.
Qed.
Theorem grid3_y_bound (i j a b : Z) :
  (0 <= i <= nz - 1)%Z -> (0 <= j <= nx - 1)%Z -> (0 <= a <= ny - 1)%Z -> (0 <= b <= ny - 1)%Z ->
  Rabs (T i j a - T i j b) <= ycost3 i j a b.
Proof.
  intros Hi Hj Ha Hb. destruct Edges as (_ & _ & HY).
  apply (line_bound (fun c => T i j c) (wy i j) 0 (ny - 1)); [|lia|lia].
  intros c Hc. apply HY; lia.
Qed.

(* a monotone staircase path with the actual edge slownesses: along z from p, then along x, then along y to q *)
Theorem grid3_L_path_zxy (i j k i' j' k' : Z) :
  (0 <= i <= nz - 1)%Z -> (0 <= j <= nx - 1)%Z -> (0 <= k <= ny - 1)%Z ->
  (0 <= i' <= nz - 1)%Z -> (0 <= j' <= nx - 1)%Z -> (0 <= k' <= ny - 1)%Z ->
  T i' j' k' <= T i j k + zcost3 j k i i' + xcost3 i' k j j' + ycost3 i' j' k k'.
Proof.
  intros Hi Hj Hk Hi' Hj' Hk'.
  pose proof (grid3_z_bound j k i' i Hj Hk Hi' Hi) as A.
  pose proof (grid3_x_bound i' k j' j Hi' Hk Hj' Hj) as B.
  pose proof (grid3_y_bound i' j' k' k Hi' Hj' Hk' Hk) as C.
  unfold zcost3 in *. unfold xcost3 in *. unfold ycost3 in *.
  rewrite linecost_sym in A. rewrite linecost_sym in B. rewrite linecost_sym in C.
  apply Rabs_le_inv' in A. apply Rabs_le_inv' in B. apply Rabs_le_inv' in C. lra.
Qed.

(* ANY path along grid edges *)
Theorem grid3_path_bound (p q : Z * Z * Z) (l : R) :
  gpath3 nz nx ny slow dz dx dy p q l ->
  T (fst (fst q)) (snd (fst q)) (snd q) <= T (fst (fst p)) (snd (fst p)) (snd p) + l.
Proof.
  destruct Edges as (HZ & HX & HY).
  induction 1 as [p | p q r w l Sp _ IH]; [lra|].
  assert (St : T (fst (fst q)) (snd (fst q)) (snd q) <= T (fst (fst p)) (snd (fst p)) (snd p) + w).
  { destruct Sp as [c j k Hc Hj Hk | c j k Hc Hj Hk | i c k Hi Hc Hk | i c k Hi Hc Hk | i j c Hi Hj Hc | i j c Hi Hj Hc];
      cbn [fst snd].
    - pose proof (HZ c j k Hc Hj Hk) as A. apply Rabs_le_inv' in A. lra.
    - pose proof (HZ c j k Hc Hj Hk) as A. apply Rabs_le_inv' in A. lra.
    - pose proof (HX i c k Hi Hc Hk) as A. apply Rabs_le_inv' in A. lra.
    - pose proof (HX i c k Hi Hc Hk) as A. apply Rabs_le_inv' in A. lra.
    - pose proof (HY i j c Hi Hj Hc) as A. apply Rabs_le_inv' in A. lra.
    - pose proof (HY i j c Hi Hj Hc) as A. apply Rabs_le_inv' in A. lra. }
  lra.
Qed.

Variable smax : R.
Hypothesis Hdz : 0 <= dz.
Hypothesis Hdx : 0 <= dx.
Hypothesis Hdy : 0 <= dy.
Hypothesis Hmax : forall p q r, (0 <= p <= nz - 2)%Z -> (0 <= q <= nx - 2)%Z -> (0 <= r <= ny - 2)%Z ->
                                get 0 slow [p; q; r] <= smax.

Lemma smin_zedge3_le c j k :
  (0 <= c <= nz - 2)%Z -> (0 <= j <= nx - 1)%Z -> (0 <= k <= ny - 1)%Z -> Sweep3dProofs.smin_zedge nx ny slow c j k <= smax.
Proof. intros Hc Hj Hk. unfold Sweep3dProofs.smin_zedge. eapply Rle_trans; [apply gp_pymin4_le_1|]. apply Hmax; lia. Qed.
Lemma smin_xedge3_le i c k :
  (0 <= i <= nz - 1)%Z -> (0 <= c <= nx - 2)%Z -> (0 <= k <= ny - 1)%Z -> Sweep3dProofs.smin_xedge nz ny slow i c k <= smax.
Proof. intros Hi Hc Hk. unfold Sweep3dProofs.smin_xedge. eapply Rle_trans; [apply gp_pymin4_le_1|]. apply Hmax; lia. Qed.
Lemma smin_yedge3_le i j c :
  (0 <= i <= nz - 1)%Z -> (0 <= j <= nx - 1)%Z -> (0 <= c <= ny - 2)%Z -> Sweep3dProofs.smin_yedge nz nx slow i j c <= smax.
Proof. intros Hi Hj Hc. unfold Sweep3dProofs.smin_yedge. eapply Rle_trans; [apply gp_pymin4_le_1|]. apply Hmax; lia. Qed.

Theorem grid3_manhattan (i j k i' j' k' : Z) :
  (0 <= i <= nz - 1)%Z -> (0 <= j <= nx - 1)%Z -> (0 <= k <= ny - 1)%Z ->
  (0 <= i' <= nz - 1)%Z -> (0 <= j' <= nx - 1)%Z -> (0 <= k' <= ny - 1)%Z ->
  T i' j' k' <= T i j k + smax * (dz * IZR (Z.abs (i' - i)) + dx * IZR (Z.abs (j' - j)) + dy * IZR (Z.abs (k' - k))).
Proof.
  intros Hi Hj Hk Hi' Hj' Hk'.
  pose proof (grid3_L_path_zxy i j k i' j' k' Hi Hj Hk Hi' Hj' Hk') as A.
  assert (B : zcost3 j k i i' <= dz * smax * IZR (Z.abs (i - i'))).
  { apply (linecost_le (wz j k) 0 (nz - 1)); [|lia|lia].
    intros c Hc. apply Rmult_le_compat_l; [exact Hdz|]. apply smin_zedge3_le; lia. }
  assert (C : xcost3 i' k j j' <= dx * smax * IZR (Z.abs (j - j'))).
  { apply (linecost_le (wx i' k) 0 (nx - 1)); [|lia|lia].
    intros c Hc. apply Rmult_le_compat_l; [exact Hdx|]. apply smin_xedge3_le; lia. }
  assert (D : ycost3 i' j' k k' <= dy * smax * IZR (Z.abs (k - k'))).
  { apply (linecost_le (wy i' j') 0 (ny - 1)); [|lia|lia].
    intros c Hc. apply Rmult_le_compat_l; [exact Hdy|]. apply smin_yedge3_le; lia. }
  replace (Z.abs (i' - i)) with (Z.abs (i - i')) by lia. replace (Z.abs (j' - j)) with (Z.abs (j - j')) by lia.
  replace (Z.abs (k' - k)) with (Z.abs (k - k')) by lia. lra.
Qed.

Corollary grid3_manhattan_abs (i j k i' j' k' : Z) :
  (0 <= i <= nz - 1)%Z -> (0 <= j <= nx - 1)%Z -> (0 <= k <= ny - 1)%Z ->
  (0 <= i' <= nz - 1)%Z -> (0 <= j' <= nx - 1)%Z -> (0 <= k' <= ny - 1)%Z ->
  Rabs (T i' j' k' - T i j k) <=
  smax * (dz * IZR (Z.abs (i' - i)) + dx * IZR (Z.abs (j' - j)) + dy * IZR (Z.abs (k' - k))).
Proof.
  intros Hi Hj Hk Hi' Hj' Hk'.
  pose proof (grid3_manhattan i j k i' j' k' Hi Hj Hk Hi' Hj' Hk') as A.
  pose proof (grid3_manhattan i' j' k' i j k Hi' Hj' Hk' Hi Hj Hk) as B.
  replace (Z.abs (i - i')) with (Z.abs (i' - i)) in B by lia. replace (Z.abs (j - j')) with (Z.abs (j' - j)) in B by lia.
  replace (Z.abs (k - k')) with (Z.abs (k' - k)) in B by lia.
  apply Rabs_le. lra.
Qed.
End Grid3.


(* ------------------------------------------------------------------------------------------ *)
(* 3. solver level, 2D                                                                          *)
(* ------------------------------------------------------------------------------------------ *)
Lemma los_R_le (a b : R) : @le_or_same R NumR a b -> a <= b.
Proof. intros [->|L]; [lra|]. cbn [nltb NumR] in L. apply Rltb_true in L. lra. Qed.

Lemma Rround_IZR k : Rround (IZR k) = IZR k.
Proof.
  destruct (Rround_spec (IZR k)) as (k' & -> & Hk). apply Rabs_le_inv' in Hk.
  assert (A : IZR (k - 1) < IZR k') by (rewrite minus_IZR; lra).
  assert (B : IZR k' < IZR (k + 1)) by (rewrite plus_IZR; lra).
  apply lt_IZR in A, B. f_equal. lia.
Qed.

(* the source-line initialisation (iflag = 2) leaves the four corners of the source cell at their analytic times: the
   four loops only write outside the source cell (InitExact: *_phase_frame) *)
Lemma p2_corner_value nz nx (dx dz : R) grad slow (tt G : arr R) S (vzero xsa : R) xsi (zsa : R) zsi a b :
  wf tt -> shape tt = [nz; nx] -> (0 <= zsi < nz - 1)%Z -> (0 <= xsi < nx - 1)%Z ->
  (zsi <= a <= zsi + 1)%Z -> (xsi <= b <= xsi + 1)%Z ->
  get 0 (fst (fst (fteik2d_p2 dx dz grad 2 nx nz slow tt G S vzero xsa xsi zsa zsi))) [a; b]
  = Fteik2d.t_ana a b dz dx zsa xsa vzero.
Proof.
  intros Wt St Hz Hx Ha Hb. rewrite fteik2d_p2_decompose. change (2 =? 2)%Z with true. cbv iota zeta.
  destruct (InitEquiv.init_corners_tt nz nx dx dz grad vzero xsa xsi zsa zsi tt G (conj Wt St) Hz Hx) as [[Wc Sc] Gc].
  set (c := init_corners dx dz grad vzero xsa xsi zsa zsi tt G) in *.
  match goal with |- context [east_phase dx dz grad nx slow vzero xsa xsi zsa zsi ?dzu ?dzd ?dxe ?st] =>
    pose proof (InitExact.east_phase_frame nz nx dx dz grad slow vzero xsa zsa zsi xsi Hz Hx dzu dzd dxe st Sc) as F1;
    set (st1 := east_phase dx dz grad nx slow vzero xsa xsi zsa zsi dzu dzd dxe st) in * end.
  assert (S1 : shape (InitExact.ttof st1) = [nz; nx]) by (destruct F1 as (E & _); rewrite E; exact Sc).
  match goal with |- context [west_phase dx dz grad slow vzero xsa xsi zsa zsi ?dzu ?dzd ?dxw st1] =>
    pose proof (InitExact.west_phase_frame nz nx dx dz grad slow vzero xsa zsa zsi xsi Hz Hx dzu dzd dxw st1 S1) as F2;
    set (st2 := west_phase dx dz grad slow vzero xsa xsi zsa zsi dzu dzd dxw st1) in * end.
  assert (S2 : shape (InitExact.ttof st2) = [nz; nx]) by (destruct F2 as (E & _); rewrite E; exact S1).
  match goal with |- context [down_phase dx dz grad nz slow vzero xsa xsi zsa zsi ?dxw ?dxe ?dzd ?st] =>
    pose proof (InitExact.down_phase_frame nz nx dx dz grad slow vzero xsa zsa zsi xsi Hz Hx dxw dxe dzd st S2) as F3;
    set (st3 := down_phase dx dz grad nz slow vzero xsa xsi zsa zsi dxw dxe dzd st) in * end.
  assert (S3 : shape (InitExact.ttof st3) = [nz; nx]) by (destruct F3 as (E & _); rewrite E; exact S2).
  match goal with |- context [up_phase dx dz grad slow vzero xsa xsi zsa zsi ?dxw ?dxe ?dzu st3] =>
    pose proof (InitExact.up_phase_frame nz nx dx dz grad slow vzero xsa zsa zsi xsi Hz Hx dxw dxe dzu st3 S3) as F4;
    set (st4 := up_phase dx dz grad slow vzero xsa xsi zsa zsi dxw dxe dzu st3) in * end.
  destruct F1 as (_ & _ & G1), F2 as (_ & _ & G2), F3 as (_ & _ & G3), F4 as (_ & _ & G4).
  unfold InitExact.ttof in G1, G2, G3, G4. cbn [fst snd] in G1, G2, G3, G4 |- *.
  assert (Ra : (0 <= a < nz)%Z) by lia. assert (Rb : (0 <= b < nx)%Z) by lia.
  rewrite (G4 a b Ra Rb) by (intros [A _]; lia).
  rewrite (G3 a b Ra Rb) by (intros [A _]; lia).
  rewrite (G2 a b Ra Rb) by (intros [_ A]; lia).
  rewrite (G1 a b Ra Rb) by (intros [_ A]; lia).
  rewrite (Gc a b Ra Rb). unfold InitEquiv.isC.
  replace (((a =? zsi) || (a =? zsi + 1)) && ((b =? xsi) || (b =? xsi + 1)))%Z with true.
  - apply t_anad_fst.
  - symmetry. rewrite andb_true_iff, !orb_true_iff, !Z.eqb_eq. lia.
Qed.

Section Solver2d.
Variables (slow : arr R) (dz dx zsrc xsrc smax : R).
Hypotheses (Hdz : 0 < dz) (Hdx : 0 < dx).
Hypotheses (Hnz : (1 <= dim slow 0)%Z) (Hnx : (1 <= dim slow 1)%Z).
Hypothesis (Hmax : forall i j, (0 <= i < dim slow 0)%Z -> (0 <= j < dim slow 1)%Z -> get 0 slow [i; j] <= smax).

Notation NZ := (dim slow 0 + 1)%Z.
Notation NX := (dim slow 1 + 1)%Z.
Notation zsa := (i_zsa slow dz dx zsrc xsrc).
Notation xsa := (i_xsa slow dz dx zsrc xsrc).
Notation zsi := (i_zsi slow dz dx zsrc xsrc).
Notation xsi := (i_xsi slow dz dx zsrc xsrc).
Notation vz := (i_vzero slow dz dx zsrc xsrc).
Notation PTT := (ptt slow dz dx zsrc xsrc).
Notation man i j i' j' := (smax * (dz * IZR (Z.abs (i' - i)) + dx * IZR (Z.abs (j' - j)))).

(* a grid left unchanged by one pass of the solver's sweeping loop *)
Lemma ptt_fixed_grid_bound grad t :
  Sweep2dProofs.okT NZ NX t -> PTT grad t = t ->
  forall i j i' j', (0 <= i <= dim slow 0)%Z -> (0 <= j <= dim slow 1)%Z ->
    (0 <= i' <= dim slow 0)%Z -> (0 <= j' <= dim slow 1)%Z ->
    get 0 t [i'; j'] <= get 0 t [i; j] + man i j i' j'.
Proof.
  intros Hok Hfix i j i' j' Hi Hj Hi' Hj'.
  unfold ptt, pass2d in Hfix. cbn [fst snd] in Hfix. rewrite i_nz_eq, i_nx_eq in Hfix.
  refine (grid2_manhattan NZ NX t _ slow dz dx _ _ _ _ _ grad ltac:(lia) ltac:(lia) Hok Hfix smax
            ltac:(lra) ltac:(lra) _ i j i' j' ltac:(lia) ltac:(lia) ltac:(lia) ltac:(lia)).
  intros p q Hp Hq. apply Hmax; lia.
Qed.

(* "converged": the grid returned after nsweep + 1 sweeps is the grid returned after nsweep sweeps *)
Lemma converged_is_fixed nsweep grad tt G v tt' G' v' :
  (0 <= nsweep)%Z ->
  fteik2d slow dz dx zsrc xsrc nsweep grad = Ok (tt, G, v) ->
  fteik2d slow dz dx zsrc xsrc (nsweep + 1) grad = Ok (tt', G', v') -> tt' = tt ->
  Sweep2dProofs.okT NZ NX tt /\ PTT grad tt = tt /\
  tt = Nat.iter (Z.to_nat nsweep) (PTT grad) (i_tt slow dz dx zsrc xsrc grad) /\
  inside2d slow dz dx zsrc xsrc = true.
Proof.
  intros Hn E E' Eq.
  apply fteik2d_ok_inv in E as (Hin & -> & _). apply fteik2d_ok_inv in E' as (_ & -> & _).
  replace (Z.to_nat (nsweep + 1)) with (S (Z.to_nat nsweep)) in Eq by lia. rewrite iter_S in Eq.
  split; [apply iter_ptt_okT; [exact NumLawsR | apply fteik2d_init_okT; lia]|]. split; [exact Eq|]. split; [reflexivity | exact Hin].
Qed.

(* any two nodes of a converged solution: no node is later than another node plus the slowest grid path between them *)
Theorem fteik2d_converged_grid_bound nsweep grad tt G v tt' G' v' :
  (0 <= nsweep)%Z ->
  fteik2d slow dz dx zsrc xsrc nsweep grad = Ok (tt, G, v) ->
  fteik2d slow dz dx zsrc xsrc (nsweep + 1) grad = Ok (tt', G', v') -> tt' = tt ->
  forall i j i' j', (0 <= i <= dim slow 0)%Z -> (0 <= j <= dim slow 1)%Z ->
    (0 <= i' <= dim slow 0)%Z -> (0 <= j' <= dim slow 1)%Z ->
    get 0 tt [i'; j'] <= get 0 tt [i; j] + man i j i' j'.
Proof.
  intros Hn E E' Eq. destruct (converged_is_fixed nsweep grad tt G v tt' G' v' Hn E E' Eq) as (Hok & Hfix & _).
  apply (ptt_fixed_grid_bound grad tt Hok Hfix).
Qed.

Hypotheses (Hw : wf slow) (Hsh : shape slow = [dim slow 0; dim slow 1]).
Hypothesis (Hpos : forall i j, (0 <= i < dim slow 0)%Z -> (0 <= j < dim slow 1)%Z -> 0 < get 0 slow [i; j]).

(* (a) the source is on node (kz, kx) in the solver's frame *)
Theorem fteik2d_converged_node_source nsweep grad tt G v tt' G' v' kz kx :
  (0 <= nsweep)%Z ->
  fteik2d slow dz dx zsrc xsrc nsweep grad = Ok (tt, G, v) ->
  fteik2d slow dz dx zsrc xsrc (nsweep + 1) grad = Ok (tt', G', v') -> tt' = tt ->
  zsa grad = IZR kz -> xsa grad = IZR kx ->
  forall i j, (0 <= i <= dim slow 0)%Z -> (0 <= j <= dim slow 1)%Z ->
    get 0 tt [i; j] <= smax * (dz * IZR (Z.abs (i - kz)) + dx * IZR (Z.abs (j - kx))).
Proof.
  intros Hn E E' Eq Ez Ex i j Hi Hj.
  destruct (converged_is_fixed nsweep grad tt G v tt' G' v' Hn E E' Eq) as (Hok & Hfix & _ & Hin).
  destruct (source_frame slow dz dx zsrc xsrc Hdz Hdx Hnz Hnx Hin grad) as (Sz & Sx & Bz & Bx & _).
  rewrite Ez in Bz. rewrite Ex in Bx.
  assert (A1 : IZR (zsi grad - 1) < IZR kz) by (rewrite minus_IZR; lra).
  assert (A2 : IZR kz < IZR (zsi grad + 2)) by (rewrite plus_IZR; lra).
  assert (B1 : IZR (xsi grad - 1) < IZR kx) by (rewrite minus_IZR; lra).
  assert (B2 : IZR kx < IZR (xsi grad + 2)) by (rewrite plus_IZR; lra).
  apply lt_IZR in A1, A2, B1, B2.
  assert (Hkz : (0 <= kz <= dim slow 0)%Z) by lia. assert (Hkx : (0 <= kx <= dim slow 1)%Z) by lia.
  assert (E0 : get 0 tt [kz; kx] = 0).
  { apply (fteik2d_zero_iff_source slow dz dx zsrc xsrc nsweep grad tt G v Hdz Hdx Hw Hnz Hnx Hsh Hpos E kz kx Hkz Hkx).
    split; symmetry; assumption. }
  pose proof (ptt_fixed_grid_bound grad tt Hok Hfix kz kx i j Hkz Hkx Hi Hj) as B. rewrite E0 in B. lra.
Qed.

(* the same with the hypothesis on the inputs: the source coordinates are exact multiples of the spacings *)
Lemma node_source_frame grad kz kx :
  zsrc = dz * IZR kz -> xsrc = dx * IZR kx -> zsa grad = IZR kz /\ xsa grad = IZR kx.
Proof.
  intros Ez Ex. destruct (i_src_cases slow dz dx zsrc xsrc grad) as (Ca & Cb & _).
  assert (Qz : zsrc / dz = IZR kz) by (rewrite Ez; field; lra).
  assert (Qx : xsrc / dx = IZR kx) by (rewrite Ex; field; lra).
  rewrite Qz in Ca. rewrite Qx in Cb. rewrite Rround_IZR in Ca, Cb.
  split; [destruct Ca | destruct Cb]; assumption.
Qed.

Theorem fteik2d_converged_node_source_inputs nsweep grad tt G v tt' G' v' kz kx :
  (0 <= nsweep)%Z ->
  fteik2d slow dz dx zsrc xsrc nsweep grad = Ok (tt, G, v) ->
  fteik2d slow dz dx zsrc xsrc (nsweep + 1) grad = Ok (tt', G', v') -> tt' = tt ->
  zsrc = dz * IZR kz -> xsrc = dx * IZR kx ->
  forall i j, (0 <= i <= dim slow 0)%Z -> (0 <= j <= dim slow 1)%Z ->
    0 <= get 0 tt [i; j] <= smax * (dz * IZR (Z.abs (i - kz)) + dx * IZR (Z.abs (j - kx))).
Proof.
  intros Hn E E' Eq Ez Ex i j Hi Hj. destruct (node_source_frame grad kz kx Ez Ex) as [Fz Fx]. split.
  - refine (proj1 (fteik2d_nonneg_get slow dz dx zsrc xsrc nsweep grad tt G v Hdz Hdx Hw Hnz Hnx Hsh _ E) i j Hi Hj).
    intros p q Hp Hq. left. apply Hpos; assumption.
  - apply (fteik2d_converged_node_source nsweep grad tt G v tt' G' v' kz kx); assumption.
Qed.


(* (b) source off the nodes (the solver's branch iflag = 2): each corner of the source cell starts at its analytic time
   vzero * distance, sweeps never increase a node, so after convergence every node is below the analytic time of a
   corner plus the slowest grid path from that corner.  (zsa, xsa) = source position in grid units in the solver's
   frame (Pos2d.source_frame_eps: within 1e-15 of zsrc/dz, xsrc/dx), (zsi, xsi) = source cell, vzero = its slowness. *)
Lemma init_corner_value2 grad a b :
  inside2d slow dz dx zsrc xsrc = true -> i_iflag slow dz dx zsrc xsrc grad = 2%Z ->
  (zsi grad <= a <= zsi grad + 1)%Z -> (xsi grad <= b <= xsi grad + 1)%Z ->
  get 0 (i_tt slow dz dx zsrc xsrc grad) [a; b] = Fteik2d.t_ana a b dz dx (zsa grad) (xsa grad) (vz grad).
Proof.
  intros Hin Hfl Ha Hb.
  destruct (source_frame slow dz dx zsrc xsrc Hdz Hdx Hnz Hnx Hin grad) as (Sz & Sx & _).
  unfold i_tt, p2. rewrite i_tt1_eq, i_nz_eq, i_nx_eq, Hfl.
  apply (p2_corner_value NZ NX); try lia.
  - apply wf_full. repeat constructor; lia.
  - reflexivity.
Qed.

Theorem fteik2d_converged_off_node_corner nsweep grad tt G v tt' G' v' :
  (0 <= nsweep)%Z ->
  fteik2d slow dz dx zsrc xsrc nsweep grad = Ok (tt, G, v) ->
  fteik2d slow dz dx zsrc xsrc (nsweep + 1) grad = Ok (tt', G', v') -> tt' = tt ->
  i_iflag slow dz dx zsrc xsrc grad = 2%Z ->
  forall ci cj, (zsi grad <= ci <= zsi grad + 1)%Z -> (xsi grad <= cj <= xsi grad + 1)%Z ->
  forall i j, (0 <= i <= dim slow 0)%Z -> (0 <= j <= dim slow 1)%Z ->
    get 0 tt [i; j] <=
    v * sqrt ((dz * (IZR ci - zsa grad)) ^ 2 + (dx * (IZR cj - xsa grad)) ^ 2)
    + smax * (dz * IZR (Z.abs (i - ci)) + dx * IZR (Z.abs (j - cj))).
Proof.
  intros Hn E E' Eq Hfl ci cj Hci Hcj i j Hi Hj.
  destruct (converged_is_fixed nsweep grad tt G v tt' G' v' Hn E E' Eq) as (Hok & Hfix & Ett & Hin).
  assert (Ev : v = vz grad) by (apply fteik2d_ok_inv in E as (_ & _ & Ev); exact Ev).
  destruct (source_frame slow dz dx zsrc xsrc Hdz Hdx Hnz Hnx Hin grad) as (Sz & Sx & _).
  assert (Rci : (0 <= ci <= dim slow 0)%Z) by lia. assert (Rcj : (0 <= cj <= dim slow 1)%Z) by lia.
  pose proof (ptt_fixed_grid_bound grad tt Hok Hfix ci cj i j Rci Rcj Hi Hj) as B.
  (* the corner value can only have decreased since the initialisation *)
  assert (C : get 0 tt [ci; cj] <= Fteik2d.t_ana ci cj dz dx (zsa grad) (xsa grad) (vz grad)).
  { rewrite <- (init_corner_value2 grad ci cj Hin Hfl Hci Hcj). rewrite Ett.
    assert (Hok0 : Sweep2dProofs.okT NZ NX (i_tt slow dz dx zsrc xsrc grad)) by (apply fteik2d_init_okT; lia).
    revert Hok0. generalize (i_tt slow dz dx zsrc xsrc grad). intros t0 Hok0.
    pose proof (iter_ptt_mono slow dz dx zsrc xsrc (NumLaws0 := NumLawsR) grad t0 0 (Z.to_nat nsweep) Hok0
                  ltac:(lia) ci cj ltac:(lia) ltac:(lia)) as M.
    apply los_R_le. exact M. }
  rewrite t_ana_exact in C. rewrite Ev. lra.
Qed.

(* every accepted source (on a node or not): some corner c of the source cell bounds the whole converged grid *)
Theorem fteik2d_converged_some_corner nsweep grad tt G v tt' G' v' :
  (0 <= nsweep)%Z ->
  fteik2d slow dz dx zsrc xsrc nsweep grad = Ok (tt, G, v) ->
  fteik2d slow dz dx zsrc xsrc (nsweep + 1) grad = Ok (tt', G', v') -> tt' = tt ->
  exists ci cj, (zsi grad <= ci <= zsi grad + 1)%Z /\ (xsi grad <= cj <= xsi grad + 1)%Z /\
  forall i j, (0 <= i <= dim slow 0)%Z -> (0 <= j <= dim slow 1)%Z ->
    get 0 tt [i; j] <=
    v * sqrt ((dz * (IZR ci - zsa grad)) ^ 2 + (dx * (IZR cj - xsa grad)) ^ 2)
    + smax * (dz * IZR (Z.abs (i - ci)) + dx * IZR (Z.abs (j - cj))).
Proof.
  intros Hn E E' Eq.
  destruct (Z.eq_dec (i_iflag slow dz dx zsrc xsrc grad) 2) as [Hfl|Hfl].
  - exists (zsi grad), (xsi grad). split; [lia|]. split; [lia|]. intros i j Hi Hj.
    apply (fteik2d_converged_off_node_corner nsweep grad tt G v tt' G' v' Hn E E' Eq Hfl); lia.
  - destruct (converged_is_fixed nsweep grad tt G v tt' G' v' Hn E E' Eq) as (_ & _ & _ & Hin).
    destruct (source_frame slow dz dx zsrc xsrc Hdz Hdx Hnz Hnx Hin grad) as (Sz & Sx & Bz & Bx & Hnode).
    destruct (Hnode Hfl) as (kz & kx & Ez & Ex). exists kz, kx.
    rewrite Ez in Bz. rewrite Ex in Bx.
    assert (A1 : IZR (zsi grad - 1) < IZR kz) by (rewrite minus_IZR; lra).
    assert (A2 : IZR kz < IZR (zsi grad + 2)) by (rewrite plus_IZR; lra).
    assert (B1 : IZR (xsi grad - 1) < IZR kx) by (rewrite minus_IZR; lra).
    assert (B2 : IZR kx < IZR (xsi grad + 2)) by (rewrite plus_IZR; lra).
    apply lt_IZR in A1, A2, B1, B2. split; [lia|]. split; [lia|]. intros i j Hi Hj.
    pose proof (fteik2d_converged_node_source nsweep grad tt G v tt' G' v' kz kx Hn E E' Eq Ez Ex i j Hi Hj) as B.
    assert (Hv : 0 <= v).
    { refine (proj2 (fteik2d_nonneg_get slow dz dx zsrc xsrc nsweep grad tt G v Hdz Hdx Hw Hnz Hnx Hsh _ E)).
      intros p q Hp Hq. left. apply Hpos; assumption. }
    pose proof (sqrt_pos ((dz * (IZR kz - zsa grad)) ^ 2 + (dx * (IZR kx - xsa grad)) ^ 2)) as Hs.
    pose proof (Rmult_le_pos _ _ Hv Hs). lra.
Qed.
End Solver2d.

(* ------------------------------------------------------------------------------------------ *)
(* 3'. solver level, 3D                                                                         *)
(* ------------------------------------------------------------------------------------------ *)
Section Solver3d.
Variables (slow : arr R) (dz dx dy zsrc xsrc ysrc smax : R).
Hypotheses (Hdz : 0 < dz) (Hdx : 0 < dx) (Hdy : 0 < dy).
Hypotheses (Hnz : (1 <= dim slow 0)%Z) (Hnx : (1 <= dim slow 1)%Z) (Hny : (1 <= dim slow 2)%Z).
Hypothesis (Hmax : forall i j k, (0 <= i < dim slow 0)%Z -> (0 <= j < dim slow 1)%Z -> (0 <= k < dim slow 2)%Z ->
                                 get 0 slow [i; j; k] <= smax).

Notation NZ := (dim slow 0 + 1)%Z.
Notation NX := (dim slow 1 + 1)%Z.
Notation NY := (dim slow 2 + 1)%Z.
Notation PTT3 := (Solve3dProofs.ptt3 slow dz dx dy).
Notation TT0 := (Solve3dProofs.tt0_3d slow dz dx dy zsrc xsrc ysrc).
Notation zsi := (Solve3dProofs.zsi3 slow dz zsrc).
Notation xsi := (Solve3dProofs.xsi3 slow dx xsrc).
Notation ysi := (Solve3dProofs.ysi3 slow dy ysrc).
Notation man3 i j k i' j' k' :=
  (smax * (dz * IZR (Z.abs (i' - i)) + dx * IZR (Z.abs (j' - j)) + dy * IZR (Z.abs (k' - k)))).

Lemma ptt3_fixed_grid_bound grad t :
  Sweep3dProofs.okT NZ NX NY t -> PTT3 grad t = t ->
  forall i j k i' j' k', (0 <= i <= dim slow 0)%Z -> (0 <= j <= dim slow 1)%Z -> (0 <= k <= dim slow 2)%Z ->
    (0 <= i' <= dim slow 0)%Z -> (0 <= j' <= dim slow 1)%Z -> (0 <= k' <= dim slow 2)%Z ->
    get 0 t [i'; j'; k'] <= get 0 t [i; j; k] + man3 i j k i' j' k'.
Proof.
  intros Hok Hfix i j k i' j' k' Hi Hj Hk Hi' Hj' Hk'.
  unfold Solve3dProofs.ptt3, Solve3dProofs.pass3d in Hfix. cbn [fst snd] in Hfix.
  refine (grid3_manhattan NZ NX NY t _ slow dz dx dy grad ltac:(lia) ltac:(lia) ltac:(lia) Hok Hfix smax
            ltac:(lra) ltac:(lra) ltac:(lra) _ i j k i' j' k'
            ltac:(lia) ltac:(lia) ltac:(lia) ltac:(lia) ltac:(lia) ltac:(lia)).
  intros p q r Hp Hq Hr. apply Hmax; lia.
Qed.

Lemma converged_is_fixed3 nsweep grad tt G v tt' G' v' :
  (0 <= nsweep)%Z ->
  fteik3d slow dz dx dy zsrc xsrc ysrc nsweep grad = Ok (tt, G, v) ->
  fteik3d slow dz dx dy zsrc xsrc ysrc (nsweep + 1) grad = Ok (tt', G', v') -> tt' = tt ->
  Sweep3dProofs.okT NZ NX NY tt /\ PTT3 grad tt = tt /\
  tt = Nat.iter (Z.to_nat nsweep) (PTT3 grad) TT0 /\
  Solve3dProofs.inside3d slow dz dx dy zsrc xsrc ysrc = true.
Proof.
  intros Hn E E' Eq.
  apply Solve3dProofs.fteik3d_ok_inv in E as (Hin & -> & _). apply Solve3dProofs.fteik3d_ok_inv in E' as (_ & -> & _).
  replace (Z.to_nat (nsweep + 1)) with (S (Z.to_nat nsweep)) in Eq by lia. rewrite iter_S in Eq.
  split; [apply Solve3dProofs.iter_ptt3_okT; [exact NumLawsR | apply Solve3dProofs.fteik3d_init_okT; lia]|].
  split; [exact Eq|]. split; [reflexivity | exact Hin].
Qed.

Theorem fteik3d_converged_grid_bound nsweep grad tt G v tt' G' v' :
  (0 <= nsweep)%Z ->
  fteik3d slow dz dx dy zsrc xsrc ysrc nsweep grad = Ok (tt, G, v) ->
  fteik3d slow dz dx dy zsrc xsrc ysrc (nsweep + 1) grad = Ok (tt', G', v') -> tt' = tt ->
  forall i j k i' j' k', (0 <= i <= dim slow 0)%Z -> (0 <= j <= dim slow 1)%Z -> (0 <= k <= dim slow 2)%Z ->
    (0 <= i' <= dim slow 0)%Z -> (0 <= j' <= dim slow 1)%Z -> (0 <= k' <= dim slow 2)%Z ->
    get 0 tt [i'; j'; k'] <= get 0 tt [i; j; k] + man3 i j k i' j' k'.
Proof.
  intros Hn E E' Eq. destruct (converged_is_fixed3 nsweep grad tt G v tt' G' v' Hn E E' Eq) as (Hok & Hfix & _).
  apply (ptt3_fixed_grid_bound grad tt Hok Hfix).
Qed.

Hypothesis (Hpos : forall i j k, (0 <= i < dim slow 0)%Z -> (0 <= j < dim slow 1)%Z -> (0 <= k < dim slow 2)%Z ->
                                 0 < get 0 slow [i; j; k]).

(* every corner of the source cell: analytic time of the corner + slowest grid path (the 3D initialisation always sets the
   8 corners of the source cell to vzero * distance; a source on a node is the special case distance = 0 below) *)
Theorem fteik3d_converged_corner nsweep grad tt G v tt' G' v' :
  (0 <= nsweep)%Z ->
  fteik3d slow dz dx dy zsrc xsrc ysrc nsweep grad = Ok (tt, G, v) ->
  fteik3d slow dz dx dy zsrc xsrc ysrc (nsweep + 1) grad = Ok (tt', G', v') -> tt' = tt ->
  forall ci cj ck, (zsi <= ci <= zsi + 1)%Z -> (xsi <= cj <= xsi + 1)%Z -> (ysi <= ck <= ysi + 1)%Z ->
  forall i j k, (0 <= i <= dim slow 0)%Z -> (0 <= j <= dim slow 1)%Z -> (0 <= k <= dim slow 2)%Z ->
    get 0 tt [i; j; k] <=
    v * sqrt ((dz * (IZR ci - zsrc / dz)) ^ 2 + (dx * (IZR cj - xsrc / dx)) ^ 2 + (dy * (IZR ck - ysrc / dy)) ^ 2)
    + smax * (dz * IZR (Z.abs (i - ci)) + dx * IZR (Z.abs (j - cj)) + dy * IZR (Z.abs (k - ck))).
Proof.
  intros Hn E E' Eq ci cj ck Hci Hcj Hck i j k Hi Hj Hk.
  destruct (converged_is_fixed3 nsweep grad tt G v tt' G' v' Hn E E' Eq) as (Hok & Hfix & Ett & Hin).
  assert (Ev : v = Solve3dProofs.vzero3 slow dz dx dy zsrc xsrc ysrc)
    by (apply Solve3dProofs.fteik3d_ok_inv in E as (_ & _ & Ev); exact Ev).
  destruct (Pos3d.source_cell3 slow dz dx dy zsrc xsrc ysrc Hdz Hdx Hdy Hnz Hnx Hny Hin) as ((Sz & _) & (Sx & _) & (Sy & _)).
  assert (Rci : (0 <= ci <= dim slow 0)%Z) by lia. assert (Rcj : (0 <= cj <= dim slow 1)%Z) by lia.
  assert (Rck : (0 <= ck <= dim slow 2)%Z) by lia.
  pose proof (ptt3_fixed_grid_bound grad tt Hok Hfix ci cj ck i j k Rci Rcj Rck Hi Hj Hk) as B.
  assert (C : get 0 tt [ci; cj; ck] <=
              Fteik3d.t_ana ci cj ck dz dx dy (zsrc / dz) (xsrc / dx) (ysrc / dy) (Solve3dProofs.vzero3 slow dz dx dy zsrc xsrc ysrc)).
  { rewrite <- (Pos3d.init_corner_value slow dz dx dy zsrc xsrc ysrc Hdz Hdx Hdy Hnz Hnx Hny Hin Hpos ci cj ck
                  ltac:(lia) ltac:(lia) ltac:(lia)).
    rewrite Ett.
    assert (Hok0 : Sweep3dProofs.okT NZ NX NY TT0) by (apply Solve3dProofs.fteik3d_init_okT; lia).
    revert Hok0. generalize TT0. intros t0 Hok0.
    pose proof (Solve3dProofs.iter_ptt3_mono slow dz dx dy (NumLaws0 := NumLawsR) grad t0 0 (Z.to_nat nsweep) Hok0
                  ltac:(lia) ci cj ck ltac:(lia) ltac:(lia) ltac:(lia)) as M.
    apply los_R_le. exact M. }
  rewrite NonNeg3d.t_ana_exact in C. rewrite Ev. lra.
Qed.

(* (c) source on node (kz, kx, ky) *)
Theorem fteik3d_converged_node_source nsweep grad tt G v tt' G' v' kz kx ky :
  (0 <= nsweep)%Z ->
  fteik3d slow dz dx dy zsrc xsrc ysrc nsweep grad = Ok (tt, G, v) ->
  fteik3d slow dz dx dy zsrc xsrc ysrc (nsweep + 1) grad = Ok (tt', G', v') -> tt' = tt ->
  zsrc = dz * IZR kz -> xsrc = dx * IZR kx -> ysrc = dy * IZR ky ->
  forall i j k, (0 <= i <= dim slow 0)%Z -> (0 <= j <= dim slow 1)%Z -> (0 <= k <= dim slow 2)%Z ->
    get 0 tt [i; j; k] <= smax * (dz * IZR (Z.abs (i - kz)) + dx * IZR (Z.abs (j - kx)) + dy * IZR (Z.abs (k - ky))).
Proof.
  intros Hn E E' Eq Ez Ex Ey i j k Hi Hj Hk.
  destruct (converged_is_fixed3 nsweep grad tt G v tt' G' v' Hn E E' Eq) as (_ & _ & _ & Hin).
  assert (Qz : zsrc / dz = IZR kz) by (rewrite Ez; field; lra).
  assert (Qx : xsrc / dx = IZR kx) by (rewrite Ex; field; lra).
  assert (Qy : ysrc / dy = IZR ky) by (rewrite Ey; field; lra).
  destruct (Pos3d.source_cell3 slow dz dx dy zsrc xsrc ysrc Hdz Hdx Hdy Hnz Hnx Hny Hin) as ((Sz & Bz) & (Sx & Bx) & (Sy & By)).
  rewrite Qz in Bz. rewrite Qx in Bx. rewrite Qy in By.
  assert (A1 : IZR (zsi - 1) < IZR kz) by (rewrite minus_IZR; lra).
  assert (A2 : IZR kz < IZR (zsi + 2)) by (rewrite plus_IZR; lra).
  assert (B1 : IZR (xsi - 1) < IZR kx) by (rewrite minus_IZR; lra).
  assert (B2 : IZR kx < IZR (xsi + 2)) by (rewrite plus_IZR; lra).
  assert (C1 : IZR (ysi - 1) < IZR ky) by (rewrite minus_IZR; lra).
  assert (C2 : IZR ky < IZR (ysi + 2)) by (rewrite plus_IZR; lra).
  apply lt_IZR in A1, A2, B1, B2, C1, C2.
  pose proof (fteik3d_converged_corner nsweep grad tt G v tt' G' v' Hn E E' Eq kz kx ky
                ltac:(lia) ltac:(lia) ltac:(lia) i j k Hi Hj Hk) as B.
  rewrite Qz, Qx, Qy in B.
  replace ((dz * (IZR kz - IZR kz)) ^ 2 + (dx * (IZR kx - IZR kx)) ^ 2 + (dy * (IZR ky - IZR ky)) ^ 2) with 0 in B by ring.
  rewrite sqrt_0, Rmult_0_r in B. lra.
Qed.
End Solver3d.


(* ------------------------------------------------------------------------------------------ *)
(* 4. non-vacuity                                                                               *)
(* ------------------------------------------------------------------------------------------ *)
Lemma upd_nth_id {A} (l : list A) n d : upd l n (nth n l d) = l.
Proof. revert n. induction l as [|x l IH]; intros [|n]; cbn; try reflexivity. f_equal. apply IH. Qed.
Lemma set_get_id {A} (d : A) (a : arr A) idx : set a idx (get d a idx) = a.
Proof. unfold set, get. rewrite upd_nth_id. destruct a; reflexivity. Qed.
Lemma pymin3_keep (t a b : R) : t <= a -> t <= b -> pymin3 t a b = t.
Proof.
  intros Ha Hb. unfold pymin3, pymin2. cbn [nltb NumR].
  destruct (Rltb a t) eqn:E1; [apply Rltb_true in E1; lra|].
  destruct (Rltb b t) eqn:E2; [apply Rltb_true in E2; lra | reflexivity].
Qed.

(* 4a. a plane wave travelling along z in a homogeneous medium, T(i,j) = s * dz * i, is a fixed point of sweep2d (any
   grid size; source box far away, so that the plane-wave operators are used): looking upwind the 4-point operator
   reproduces the node value exactly (OperatorsR.sweep_four_point_plane_wave), looking downwind no 2D operator is
   admissible. *)
Section PlaneWave.
Variables (nz nx : Z) (tt : arr R) (slow : arr R) (dz dx zsi xsi zsa xsa vzero s : R).
Hypotheses (Hnz : (2 <= nz)%Z) (Hnx : (2 <= nx)%Z) (Hdz : 0 < dz) (Hdx : 0 < dx) (Hs : 0 < s).
Hypothesis Hget : forall i j, (0 <= i < nz)%Z -> (0 <= j < nx)%Z -> get 0 tt [i; j] = s * dz * IZR i.
Hypothesis Hslow : forall p q, (0 <= p <= nz - 2)%Z -> (0 <= q <= nx - 2)%Z -> get 0 slow [p; q] = s.
Hypothesis Hbox : forall i, (0 <= i < nz)%Z -> IZR epsin < Rabs (IZR i - zsi).
Hypothesis HBig : forall i, (0 <= i < nz)%Z -> s * dz * IZR i <= Fteik2d.Big.

Lemma pw_t1d_ge i j sgnvz sgnvx sgntz sgntx :
  (0 <= i < nz)%Z -> (0 <= j < nx)%Z -> (sgntz = 1 \/ sgntz = -1)%Z ->
  (0 <= i - sgnvz <= nz - 2)%Z -> (0 <= j - sgnvx <= nx - 2)%Z -> (0 <= i - sgntz < nz)%Z -> (0 <= j - sgntx < nx)%Z ->
  get 0 tt [i; j] <= t1d tt slow dz dx i j sgnvz sgnvx sgntz sgntx nz nx.
Proof.
  intros Hi Hj Hsg Hiv Hjv Hit Hjt.
  unfold t1d, t1d_z, t1d_x, nb_v, nb_e, edge_s_z, edge_s_x.
  rewrite !Hget by lia. rewrite !Hslow by lia.
  pose proof (pymin2_ge s s s (Rle_refl s) (Rle_refl s)) as M. set (m := pymin2 s s) in *.
  apply pymin2_ge.
  - destruct Hsg as [-> | ->]; rewrite minus_IZR; [change (IZR 1) with 1 | change (IZR (-1)) with (-1)]; nra.
  - nra.
Qed.

Lemma pw_leaf_up ttsgn grad i j sgnvx sgntx :
  (1 <= i <= nz - 1)%Z -> (0 <= j < nx)%Z -> (0 <= j - sgnvx <= nx - 2)%Z -> (0 <= j - sgntx < nx)%Z ->
  fst (Fteik2d.sweep tt ttsgn slow (dz, dx, 1 / dz, 1 / dx, 1 / dz / dz, 1 / dx / dx) zsi xsi zsa xsa vzero
             i j 1 sgnvx 1 sgntx nz nx grad) = tt.
Proof.
  intros Hi Hj Hjv Hjt.
  change (dz, dx, 1 / dz, 1 / dx, 1 / dz / dz, 1 / dx / dx) with (dargs_of dz dx).
  rewrite (sweep_four_point_plane_wave tt ttsgn slow dz dx zsi xsi zsa xsa vzero i j 1 sgnvx 1 sgntx nz nx grad
             (s * dz * IZR (i - 1)) s 1 0); try lra.
  - rewrite pymin3_keep; [apply set_get_id | apply pw_t1d_ge; lia |].
    rewrite Hget by lia. rewrite minus_IZR. change (IZR 1) with 1. lra.
  - left. apply Hbox. lia.
  - unfold nb_ev. rewrite Hget by lia. reflexivity.
  - unfold nb_v. rewrite Hget by lia. ring.
  - unfold nb_e. rewrite Hget by lia. rewrite minus_IZR. change (IZR 1) with 1. ring.
  - unfold cell_s. apply Hslow; lia.
Qed.

Lemma pw_leaf_down ttsgn grad i j sgnvx sgntx :
  (0 <= i <= nz - 2)%Z -> (0 <= j < nx)%Z -> (0 <= j - sgnvx <= nx - 2)%Z -> (0 <= j - sgntx < nx)%Z ->
  fst (Fteik2d.sweep tt ttsgn slow (dz, dx, 1 / dz, 1 / dx, 1 / dz / dz, 1 / dx / dx) zsi xsi zsa xsa vzero
             i j 0 sgnvx (-1) sgntx nz nx grad) = tt.
Proof.
  intros Hi Hj Hjv Hjt. rewrite sweep_tt_eq.
  rewrite pymin3_keep; [apply set_get_id | apply pw_t1d_ge; lia |].
  unfold sweep_t2d. cbv zeta.
  rewrite (proj2 (outside_box_true zsi xsi i j)) by (left; apply Hbox; lia).
  unfold plane_t2d, nb_v, nb_e, nb_ev. rewrite !Hget by lia.
  rewrite !minus_IZR. change (IZR (-1)) with (-1).
  assert (P : 0 < s * dz) by (apply Rmult_lt_0_compat; assumption).
  destruct (adm4 _ _ _ _ _ _) eqn:E4; [apply adm4_true in E4; exfalso; nra|].
  destruct (adm3e _ _ _ _ _) eqn:E3; [apply adm3e_true in E3; exfalso; nra|].
  destruct (adm3v _ _ _ _ _) eqn:E3v; [apply adm3v_true in E3v; exfalso; lra|].
  apply HBig; lia.
Qed.

Ltac fix2d :=
  cbn beta iota delta [fst snd];
  lazymatch goal with
  | |- fst (for_list ?l ?b ?st) = tt =>
      apply (for_list_inv (fun u : arr R * arr Z => fst u = tt));
      [ fix2d | let Hin := fresh "Hin" in intros ? ? Hin ?; fix2d ]
  | |- fst (Fteik2d.sweep (fst ?st) _ _ _ _ _ _ _ _ _ _ _ _ _ _ _ _ _) = tt =>
      repeat match goal with
             | H : In _ (pyrange _ _ 1) |- _ => apply in_pyrange_up in H
             | H : In _ (pyrange _ _ (-1)) |- _ => apply in_pyrange_down in H
             end;
      match goal with H : fst st = tt |- _ => rewrite H end;
      first [ apply pw_leaf_up; lia | apply pw_leaf_down; lia ]
  | |- _ => first [ assumption | reflexivity ]
  end.

Theorem plane_wave_fixed2 ttsgn grad :
  fst (sweep2d tt ttsgn slow dz dx zsi xsi zsa xsa vzero nz nx grad) = tt.
Proof. unfold sweep2d. cbv zeta. fix2d. Qed.
End PlaneWave.

(* the closed instance: 2 x 2 cells of slowness 1 (NonNeg2d.ex2), unit spacings, 3 x 3 nodes, T(i,j) = i *)
Definition pw_tt : arr R := mkarr [3%Z; 3%Z] [0; 0; 0; 1; 1; 1; 2; 2; 2].
Lemma pw_tt_ok : Sweep2dProofs.okT 3 3 pw_tt.
Proof. split; [split; [reflexivity | repeat constructor; lia] | reflexivity]. Qed.
Lemma pw_tt_get i j : (0 <= i < 3)%Z -> (0 <= j < 3)%Z -> get 0 pw_tt [i; j] = 1 * 1 * IZR i.
Proof.
  intros Hi Hj. assert (Ci : i = 0%Z \/ i = 1%Z \/ i = 2%Z) by lia. assert (Cj : j = 0%Z \/ j = 1%Z \/ j = 2%Z) by lia.
  destruct Ci as [-> | [-> | ->]], Cj as [-> | [-> | ->]]; unfold get, pw_tt; simpl; lra.
Qed.
Lemma ex2_get p q : (0 <= p <= 3 - 2)%Z -> (0 <= q <= 3 - 2)%Z -> get 0 ex2 [p; q] = 1.
Proof.
  intros Hp Hq. assert (Cp : p = 0%Z \/ p = 1%Z) by lia. assert (Cq : q = 0%Z \/ q = 1%Z) by lia.
  destruct Cp as [-> | ->], Cq as [-> | ->]; unfold get, ex2; simpl; lra.
Qed.

Example pw_fixed : forall ttsgn grad, fst (sweep2d pw_tt ttsgn ex2 1 1 100 100 100 100 1 3 3 grad) = pw_tt.
Proof.
  intros ttsgn grad.
  apply (plane_wave_fixed2 3 3 pw_tt ex2 1 1 100 100 100 100 1 1); try lia; try lra.
  - exact pw_tt_get.
  - exact ex2_get.
  - intros i Hi. unfold epsin. assert (Ci : i = 0%Z \/ i = 1%Z \/ i = 2%Z) by lia.
    destruct Ci as [-> | [-> | ->]]; rewrite Rabs_left; lra.
  - intros i Hi. unfold Fteik2d.Big. cbn [nofZ NumR]. assert (Ci : i = 0%Z \/ i = 1%Z \/ i = 2%Z) by lia.
    destruct Ci as [-> | [-> | ->]]; lra.
Qed.

(* all hypotheses of the 2D grid theorems hold for it (smax = 1), and the Manhattan bound is attained along z *)
Example grid2_manhattan_ex :
  (forall i j i' j', (0 <= i <= 3 - 1)%Z -> (0 <= j <= 3 - 1)%Z -> (0 <= i' <= 3 - 1)%Z -> (0 <= j' <= 3 - 1)%Z ->
     get 0 pw_tt [i'; j'] <= get 0 pw_tt [i; j] + 1 * (1 * IZR (Z.abs (i' - i)) + 1 * IZR (Z.abs (j' - j)))) /\
  get 0 pw_tt [2%Z; 0%Z] = get 0 pw_tt [0%Z; 0%Z] + 1 * (1 * IZR (Z.abs (2 - 0)) + 1 * IZR (Z.abs (0 - 0))).
Proof.
  split.
  - apply (grid2_manhattan 3 3 pw_tt (full [] 0%Z) ex2 1 1 100 100 100 100 1 false ltac:(lia) ltac:(lia) pw_tt_ok
             (pw_fixed _ _) 1 ltac:(lra) ltac:(lra)).
    intros p q Hp Hq. rewrite ex2_get by assumption. lra.
  - rewrite !pw_tt_get by lia. change (Z.abs (2 - 0)) with 2%Z. change (Z.abs (0 - 0)) with 0%Z. lra.
Qed.

(* a two-edge path (0,0) -> (1,0) -> (1,1) of cost 1 + 1 *)
Example grid2_path_ex :
  exists l, gpath2 3 3 ex2 1 1 (0%Z, 0%Z) (1%Z, 1%Z) l /\ l = 2 /\ get 0 pw_tt [1%Z; 1%Z] <= get 0 pw_tt [0%Z; 0%Z] + l.
Proof.
  eexists. split; [|split].
  - eapply gp2_cons; [apply (gs2_zdn 3 3 ex2 1 1 0 0); lia|].
    eapply gp2_cons; [apply (gs2_xdn 3 3 ex2 1 1 1 0); lia|]. apply gp2_nil.
  - unfold Sweep2dProofs.smin_zedge, Sweep2dProofs.smin_xedge. cbn [Z.max Z.min Z.sub Z.add Z.compare Pos.compare Z.opp Z.pos_sub Pos.pred_double Pos.compare_cont].
    cbn [nofZ NumR]. rewrite !ex2_get by lia.
    unfold pymin2. cbn [nltb NumR]. destruct (Rltb 1 1); lra.
  - rewrite !pw_tt_get by lia. unfold Sweep2dProofs.smin_zedge, Sweep2dProofs.smin_xedge.
    pose proof (pymin2_ge 1 _ _ (Req_le _ _ (eq_sym (ex2_get 0 (Z.max (0 - 1) 0) ltac:(lia) ltac:(lia))))
                  (Req_le _ _ (eq_sym (ex2_get 0 (Z.min 0 (3 - 2)) ltac:(lia) ltac:(lia))))).
    pose proof (pymin2_ge 1 _ _ (Req_le _ _ (eq_sym (ex2_get (Z.max (1 - 1) 0) 0 ltac:(lia) ltac:(lia))))
                  (Req_le _ _ (eq_sym (ex2_get (Z.min 1 (3 - 2)) 0 ltac:(lia) ltac:(lia))))).
    cbn [nofZ NumR] in *. lra.
Qed.

(* 4b. the degenerate fixed point "every node is a source" (all times 0), for every grid and every non-negative slowness:
   a pass never increases a time and never produces a negative one.  It witnesses the hypotheses of the 3D theorems and
   of the pass-level solver lemmas (ptt_fixed_grid_bound, ptt3_fixed_grid_bound). *)
Lemma zero_grid_fixed2 nz nx (slow : arr R) (dz dx zsi xsi zsa xsa vzero : R) ttsgn grad :
  (2 <= nz)%Z -> (2 <= nx)%Z -> 0 < dz -> 0 < dx -> nonneg slow ->
  fst (sweep2d (full [nz; nx] 0) ttsgn slow dz dx zsi xsi zsa xsa vzero nz nx grad) = full [nz; nx] 0.
Proof.
  intros Hnz Hnx Hdz Hdx Hs. set (z := full [nz; nx] 0).
  assert (Hok : Sweep2dProofs.okT nz nx z) by (split; [apply wf_full; repeat constructor; lia | reflexivity]).
  destruct (Sweep2dProofs.sweep2d_lowers (H0 := NumLawsR) nz nx z ttsgn slow dz dx zsi xsi zsa xsa vzero grad Hok) as [Hok' Hle].
  apply (Sweep2dProofs.arr_ext2 nz nx Hnz Hnx _ _ 0 Hok' Hok). intros i j Hi Hj.
  pose proof (Hle i j Hi Hj) as L. apply los_R_le in L.
  pose proof (sweep2d_nonneg_get z ttsgn slow dz dx zsi xsi zsa xsa vzero nz nx grad Hdz Hdx Hs
                (nonneg_full _ 0 (Rle_refl 0)) i j) as P.
  assert (E0 : get 0 z [i; j] = 0).
  { unfold z. apply get_full. cbn [inb_sh]. rewrite !andb_true_iff, !Z.leb_le, !Z.ltb_lt. lia. }
  cbn [nofZ NumR] in L. rewrite E0 in L |- *. lra.
Qed.

Lemma zero_grid_fixed3 nz nx ny (slow : arr R) (dz dx dy : R) ttsgn grad :
  (2 <= nz)%Z -> (2 <= nx)%Z -> (2 <= ny)%Z -> 0 < dz -> 0 < dx -> 0 < dy -> nonneg slow ->
  fst (sweep3d (full [nz; nx; ny] 0) ttsgn slow dz dx dy nz nx ny grad) = full [nz; nx; ny] 0.
Proof.
  intros Hnz Hnx Hny Hdz Hdx Hdy Hs. set (z := full [nz; nx; ny] 0).
  assert (Hok : Sweep3dProofs.okT nz nx ny z) by (split; [apply wf_full; repeat constructor; lia | reflexivity]).
  destruct (Sweep3dProofs.sweep3d_lowers (H0 := NumLawsR) nz nx ny z ttsgn slow dz dx dy grad Hok) as [Hok' Hle].
  apply (Sweep3dProofs.arr_ext3 nz nx ny Hnz Hnx Hny _ _ 0 Hok' Hok). intros i j k Hi Hj Hk.
  pose proof (Hle i j k Hi Hj Hk) as L. apply los_R_le in L.
  pose proof (NonNeg3d.sweep3d_nonneg_get z ttsgn slow dz dx dy nz nx ny grad Hdz Hdx Hdy Hs
                (nonneg_full _ 0 (Rle_refl 0)) i j k) as P.
  assert (E0 : get 0 z [i; j; k] = 0).
  { unfold z. apply get_full. cbn [inb_sh]. rewrite !andb_true_iff, !Z.leb_le, !Z.ltb_lt. lia. }
  cbn [nofZ NumR] in L. rewrite E0 in L |- *. lra.
Qed.

Lemma ex3_get p q r : (0 <= p <= 3 - 2)%Z -> (0 <= q <= 3 - 2)%Z -> (0 <= r <= 3 - 2)%Z -> get 0 NonNeg3d.ex3 [p; q; r] = 1.
Proof.
  intros Hp Hq Hr. assert (Cp : p = 0%Z \/ p = 1%Z) by lia. assert (Cq : q = 0%Z \/ q = 1%Z) by lia.
  assert (Cr : r = 0%Z \/ r = 1%Z) by lia.
  destruct Cp as [-> | ->], Cq as [-> | ->], Cr as [-> | ->]; unfold get, NonNeg3d.ex3; simpl; lra.
Qed.

(* 2 x 2 x 2 cells of slowness 1 (NonNeg3d.ex3), 3 x 3 x 3 nodes: all hypotheses of the 3D grid theorems hold *)
Example grid3_manhattan_ex :
  forall i j k i' j' k', (0 <= i <= 3 - 1)%Z -> (0 <= j <= 3 - 1)%Z -> (0 <= k <= 3 - 1)%Z ->
    (0 <= i' <= 3 - 1)%Z -> (0 <= j' <= 3 - 1)%Z -> (0 <= k' <= 3 - 1)%Z ->
    get 0 (full [3%Z; 3%Z; 3%Z] 0) [i'; j'; k'] <=
    get 0 (full [3%Z; 3%Z; 3%Z] 0) [i; j; k]
    + 1 * (1 * IZR (Z.abs (i' - i)) + 2 * IZR (Z.abs (j' - j)) + 3 * IZR (Z.abs (k' - k))).
Proof.
  assert (Hs : nonneg NonNeg3d.ex3) by (repeat constructor; lra).
  apply (grid3_manhattan 3 3 3 (full [3%Z; 3%Z; 3%Z] 0) (full [] 0%Z) NonNeg3d.ex3 1 2 3 false
           ltac:(lia) ltac:(lia) ltac:(lia)).
  - split; [apply wf_full; repeat constructor; lia | reflexivity].
  - apply zero_grid_fixed3; try lia; try lra. exact Hs.
  - lra.
  - lra.
  - lra.
  - intros p q r Hp Hq Hr. rewrite ex3_get by assumption. lra.
Qed.

(* the pass of the solver itself (model ex2, source anywhere): the zero grid is left unchanged *)
Example ptt_zero_fixed_ex zsrc xsrc grad :
  Sweep2dProofs.okT 3 3 (full [3%Z; 3%Z] 0) /\
  ptt ex2 1 1 zsrc xsrc grad (full [3%Z; 3%Z] 0) = full [3%Z; 3%Z] 0.
Proof.
  split; [split; [apply wf_full; repeat constructor; lia | reflexivity]|].
  unfold ptt, pass2d. cbn [fst snd]. rewrite i_nz_eq, i_nx_eq.
  change (dim ex2 0 + 1)%Z with 3%Z. change (dim ex2 1 + 1)%Z with 3%Z.
  apply zero_grid_fixed2; try lia; try lra. exact ex2_nonneg.
Qed.

Print Assumptions line_bound.
Print Assumptions grid2_col_bound.
Print Assumptions grid2_L_path_zx.
Print Assumptions grid2_path_bound.
Print Assumptions grid2_manhattan.
Print Assumptions grid2_manhattan_abs.
Print Assumptions grid3_L_path_zxy.
Print Assumptions grid3_path_bound.
Print Assumptions grid3_manhattan.
Print Assumptions grid3_manhattan_abs.
Print Assumptions fteik2d_converged_grid_bound.
Print Assumptions fteik2d_converged_node_source.
Print Assumptions fteik2d_converged_node_source_inputs.
Print Assumptions fteik2d_converged_off_node_corner.
Print Assumptions fteik2d_converged_some_corner.
Print Assumptions fteik3d_converged_grid_bound.
Print Assumptions fteik3d_converged_corner.
Print Assumptions fteik3d_converged_node_source.
Print Assumptions plane_wave_fixed2.
Print Assumptions pw_fixed.
Print Assumptions grid2_manhattan_ex.
Print Assumptions grid2_path_ex.
Print Assumptions grid3_manhattan_ex.
Print Assumptions ptt_zero_fixed_ex.
