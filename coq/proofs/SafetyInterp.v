(* Memory safety of the interpolation kernels (gen/Interp2d.v, Interp3d.v, Vinterp2d.v, Vinterp3d.v):
   every axis has at least two nodes, `v` has one entry per node, the query point is arbitrary.
   The numeric type is arbitrary up to the single law `nleb a b = true -> nltb b a = false` (le_lt_law),
   which holds for the reals and for binary64 (instances at the end); it is what makes `x[0] <= xq`
   imply `searchsorted(x, xq, "right") >= 1`.  No ordering of the axes is needed for safety. *)
From Coq Require Import ZArith List Bool Lia Reals Lra PrimFloat.
From FT.lib Require Import Num Arr ArrLemmas NumArr.
From FT.gen Require Import Common Interp2d Interp3d Vinterp2d Vinterp3d.
From FT.proofs Require Import SafetyTools.
From FT.proofs Require NumFLaws.
Import ListNotations.
Open Scope Z_scope.

(* a 1-D array with exactly n entries *)
Definition axisn {A} (x : arr A) (n : Z) : Prop := shape x = [n] /\ length (dat x) = Z.to_nat n.

(* the facts about one axis and one query value used by the kernels, with the searchsorted result abstracted *)
Lemma axis_facts {T} `{Num T} (x : arr T) n q :
  le_lt_law -> axisn x n -> 2 <= n ->
  dim x 0%nat = n /\ shape x = [n] /\
  (0 <= searchsorted_right x q <= n) /\
  (nleb (get (nofZ 0) x [0]) q = true -> 1 <= searchsorted_right x q).
Proof.
  intros Law [S L] Hn. split; [ apply (dim_0 _ _ _ S) | ]. split; [ exact S | ]. split.
  - apply ssr_upper; [ exact L | lia ].
  - intros Hq. apply (ssr_lower x n q (nofZ 0) Law S L); [ lia | exact Hq ].
Qed.

Ltac interp_leaf := first [ reflexivity | inb_solve ].

(* replaces `searchsorted_right x q` by a variable constrained by its range facts *)
Ltac abstract_ssr x q :=
  let s := fresh "s" in
  match goal with
  | R : 0 <= searchsorted_right x q <= _, P : _ -> 1 <= searchsorted_right x q |- _ =>
      revert R P; generalize (searchsorted_right x q); intros s R P
  end.

Section SI.
Context {T : Type} `{Num T}.
Hypothesis Law : le_lt_law (T := T).

Theorem interp2d_ok_true (x y v : arr T) (xq yq fval : T) nx ny :
  axisn x nx -> axisn y ny -> 2 <= nx -> 2 <= ny -> shape v = [nx; ny] ->
  u_interp2d_v_ok true false x y v xq yq fval = true.
Proof.
  intros Ax Ay Hnx Hny Sv.
  destruct (axis_facts x nx xq Law Ax Hnx) as (Dx & Sx & Rx & Px).
  destruct (axis_facts y ny yq Law Ay Hny) as (Dy & Sy & Ry & Py).
  pose proof (dim_0 _ _ _ Sv) as Dv0. pose proof (dim_1 _ _ _ _ Sv) as Dv1.
  cbv beta zeta iota delta [u_interp2d_v_ok fst snd]. rewrite Dx, Dy, Dv0, Dv1.
  abstract_ssr x xq. abstract_ssr y yq.
  ok_walk interp_leaf.
Qed.

Theorem vinterp2d_ok_true (x y v : arr T) (xq yq xsrc ysrc vzero fval : T) nx ny :
  axisn x nx -> axisn y ny -> 2 <= nx -> 2 <= ny -> shape v = [nx; ny] ->
  u_vinterp2d_v_ok true false x y v xq yq xsrc ysrc vzero fval = true.
Proof.
  intros Ax Ay Hnx Hny Sv.
  destruct (axis_facts x nx xq Law Ax Hnx) as (Dx & Sx & Rx & Px).
  destruct (axis_facts y ny yq Law Ay Hny) as (Dy & Sy & Ry & Py).
  pose proof (dim_0 _ _ _ Sv) as Dv0. pose proof (dim_1 _ _ _ _ Sv) as Dv1.
  cbv beta zeta iota delta [u_vinterp2d_v_ok fst snd]. rewrite Dx, Dy, Dv0, Dv1.
  abstract_ssr x xq. abstract_ssr y yq.
  ok_walk interp_leaf.
Qed.

Theorem interp3d_ok_true (x y z v : arr T) (xq yq zq fval : T) nx ny nz :
  axisn x nx -> axisn y ny -> axisn z nz -> 2 <= nx -> 2 <= ny -> 2 <= nz -> shape v = [nx; ny; nz] ->
  u_interp3d_v_ok true false x y z v xq yq zq fval = true.
Proof.
  intros Ax Ay Az Hnx Hny Hnz Sv.
  destruct (axis_facts x nx xq Law Ax Hnx) as (Dx & Sx & Rx & Px).
  destruct (axis_facts y ny yq Law Ay Hny) as (Dy & Sy & Ry & Py).
  destruct (axis_facts z nz zq Law Az Hnz) as (Dz & Sz & Rz & Pz).
  pose proof (dim_0 _ _ _ Sv) as Dv0. pose proof (dim_1 _ _ _ _ Sv) as Dv1. pose proof (dim_2 _ _ _ _ _ Sv) as Dv2.
  cbv beta zeta iota delta [u_interp3d_v_ok fst snd]. rewrite Dx, Dy, Dz, Dv0, Dv1, Dv2.
  abstract_ssr x xq. abstract_ssr y yq. abstract_ssr z zq.
  ok_walk interp_leaf.
Qed.

Theorem vinterp3d_ok_true (x y z v : arr T) (xq yq zq xsrc ysrc zsrc vzero fval : T) nx ny nz :
  axisn x nx -> axisn y ny -> axisn z nz -> 2 <= nx -> 2 <= ny -> 2 <= nz -> shape v = [nx; ny; nz] ->
  u_vinterp3d_v_ok true false x y z v xq yq zq xsrc ysrc zsrc vzero fval = true.
Proof.
  intros Ax Ay Az Hnx Hny Hnz Sv.
  destruct (axis_facts x nx xq Law Ax Hnx) as (Dx & Sx & Rx & Px).
  destruct (axis_facts y ny yq Law Ay Hny) as (Dy & Sy & Ry & Py).
  destruct (axis_facts z nz zq Law Az Hnz) as (Dz & Sz & Rz & Pz).
  pose proof (dim_0 _ _ _ Sv) as Dv0. pose proof (dim_1 _ _ _ _ Sv) as Dv1. pose proof (dim_2 _ _ _ _ _ Sv) as Dv2.
  cbv beta zeta iota delta [u_vinterp3d_v_ok fst snd]. rewrite Dx, Dy, Dz, Dv0, Dv1, Dv2.
  abstract_ssr x xq. abstract_ssr y yq. abstract_ssr z zq.
  ok_walk interp_leaf.
Qed.
End SI.

(* ---------- the law holds for the two numeric types in use ---------- *)
Lemma le_lt_law_R : le_lt_law (T := R).
Proof. intros a b. simpl. rewrite Rleb_true, Rltb_false. auto. Qed.

Lemma le_lt_law_F : le_lt_law (T := PrimFloat.float).
Proof. intros a b. simpl. apply NumFLaws.leb_ltb_false. Qed.

Corollary interp2d_ok_true_F (x y v : arr PrimFloat.float) xq yq fval nx ny :
  axisn x nx -> axisn y ny -> 2 <= nx -> 2 <= ny -> shape v = [nx; ny] ->
  u_interp2d_v_ok true false x y v xq yq fval = true.
Proof. apply interp2d_ok_true. exact le_lt_law_F. Qed.
Corollary interp2d_ok_true_R (x y v : arr R) xq yq fval nx ny :
  axisn x nx -> axisn y ny -> 2 <= nx -> 2 <= ny -> shape v = [nx; ny] ->
  u_interp2d_v_ok true false x y v xq yq fval = true.
Proof. apply interp2d_ok_true. exact le_lt_law_R. Qed.

(* ---------- `2 <= nx` is needed: a one-node axis makes the kernel read x[-2] ---------- *)
Example interp2d_ok_single_node_refuted :
  exists x y v xq yq fval, u_interp2d_v_ok (T := PrimFloat.float) true false x y v xq yq fval = false.
Proof.
  exists (mkarr [1] [0%float]), (mkarr [2] [0%float; 1%float]), (mkarr [1; 2] [0%float; 1%float]),
         0%float, 0%float, PrimFloat.nan.
  vm_compute. reflexivity.
Qed.
(* the same inputs satisfy every other hypothesis of interp2d_ok_true *)
Example interp2d_single_node_hyps :
  axisn (mkarr [1] [0%float]) 1 /\ axisn (mkarr [2] [0%float; 1%float]) 2 /\
  shape (mkarr [1; 2] [0%float; 1%float]) = [1; 2].
Proof. repeat split. Qed.

Print Assumptions interp2d_ok_true.
Print Assumptions vinterp2d_ok_true.
Print Assumptions interp3d_ok_true.
Print Assumptions vinterp3d_ok_true.
Print Assumptions le_lt_law_R.
Print Assumptions le_lt_law_F.
Print Assumptions interp2d_ok_single_node_refuted.
