(* _interp3d (gen/Interp3d.v: u_interp3d_v) computes trilinear interpolation of the node values on
   ascending axes.  Exact real arithmetic (T := R), every axis length >= 2, every in-hull query;
   the outside-hull statement holds for every numeric type. *)
From Coq Require Import ZArith List Bool Reals Lra Lia Psatz Field.
From FT.lib Require Import Num Arr NumArr ArrLemmas.
From FT.gen Require Import Interp3d.
From FT.proofs Require Import SSR InterpR.
Import ListNotations.
Open Scope R_scope.

(* ================================================================== *)
(* 1. outside the hull: the fill value, for every numeric type          *)
(* ================================================================== *)
Theorem interp3d_outside {T : Type} `{Num T} (x y z v : arr T) (xq yq zq fval : T) :
  (nleb (get (nofZ 0) x [0%Z]) xq && nleb xq (get (nofZ 0) x [(dim x 0%nat - 1)%Z])) &&
  (nleb (get (nofZ 0) y [0%Z]) yq && nleb yq (get (nofZ 0) y [(dim y 0%nat - 1)%Z])) &&
  (nleb (get (nofZ 0) z [0%Z]) zq && nleb zq (get (nofZ 0) z [(dim z 0%nat - 1)%Z])) = false ->
  u_interp3d_v x y z v xq yq zq fval = fval.
Proof. intros E. cbv beta zeta delta [u_interp3d_v]. rewrite E. reflexivity. Qed.

(* ================================================================== *)
(* 2. the specification                                                 *)
(* ================================================================== *)
(* textbook trilinear interpolation on the box [x1,x2] x [y1,y2] x [z1,z2];
   v_abc is the value at (x_a, y_b, z_c) *)
Definition trilin_core (x1 x2 y1 y2 z1 z2 v111 v211 v121 v221 v112 v212 v122 v222 xq yq zq : R) : R :=
  let tx := (xq - x1) / (x2 - x1) in
  let ty := (yq - y1) / (y2 - y1) in
  let tz := (zq - z1) / (z2 - z1) in
  (1 - tx) * (1 - ty) * (1 - tz) * v111 + tx * (1 - ty) * (1 - tz) * v211 +
  (1 - tx) * ty * (1 - tz) * v121 + tx * ty * (1 - tz) * v221 +
  (1 - tx) * (1 - ty) * tz * v112 + tx * (1 - ty) * tz * v212 +
  (1 - tx) * ty * tz * v122 + tx * ty * tz * v222.

(* ... on cell (i,j,k) of the grid *)
Definition trilin (x y z v : arr R) (i j k : Z) (xq yq zq : R) : R :=
  trilin_core (get 0 x [i]) (get 0 x [(i + 1)%Z]) (get 0 y [j]) (get 0 y [(j + 1)%Z])
              (get 0 z [k]) (get 0 z [(k + 1)%Z])
              (get 0 v [i; j; k]) (get 0 v [(i + 1)%Z; j; k])
              (get 0 v [i; (j + 1)%Z; k]) (get 0 v [(i + 1)%Z; (j + 1)%Z; k])
              (get 0 v [i; j; (k + 1)%Z]) (get 0 v [(i + 1)%Z; j; (k + 1)%Z])
              (get 0 v [i; (j + 1)%Z; (k + 1)%Z]) (get 0 v [(i + 1)%Z; (j + 1)%Z; (k + 1)%Z]) xq yq zq.

Lemma dim3_0 {A} (v : arr A) a b c : shape v = [a; b; c] -> dim v 0%nat = a.
Proof. intros E. unfold dim. rewrite E. reflexivity. Qed.
Lemma dim3_1 {A} (v : arr A) a b c : shape v = [a; b; c] -> dim v 1%nat = b.
Proof. intros E. unfold dim. rewrite E. reflexivity. Qed.
Lemma dim3_2 {A} (v : arr A) a b c : shape v = [a; b; c] -> dim v 2%nat = c.
Proof. intros E. unfold dim. rewrite E. reflexivity. Qed.

Theorem interp3d_spec (x y z v : arr R) (nx ny nz : Z) (xq yq zq fval : R) :
  axis x nx -> axis y ny -> axis z nz -> shape v = [nx; ny; nz] ->
  get 0 x [0%Z] <= xq <= get 0 x [(nx - 1)%Z] ->
  get 0 y [0%Z] <= yq <= get 0 y [(ny - 1)%Z] ->
  get 0 z [0%Z] <= zq <= get 0 z [(nz - 1)%Z] ->
  u_interp3d_v x y z v xq yq zq fval =
  trilin x y z v (cell x nx xq) (cell y ny yq) (cell z nz zq) xq yq zq.
Proof.
  intros Ax Ay Az Sv [Hx0 Hx1] [Hy0 Hy1] [Hz0 Hz1].
  pose proof (ssrR_cases x nx xq Ax Hx0 Hx1) as Cx.
  pose proof (ssrR_cases y ny yq Ay Hy0 Hy1) as Cy.
  pose proof (ssrR_cases z nz zq Az Hz0 Hz1) as Cz.
  unfold trilin, trilin_core, cell, u_interp3d_v.
  cbv beta iota zeta delta [nleb nsub nmul nadd ndiv nabs nofZ NumR]. cbn [fst snd].
  name_selection u Eu.
  rewrite (axis_dim x nx Ax), (axis_dim y ny Ay), (axis_dim z nz Az).
  rewrite ?(axis_dim x nx Ax), ?(axis_dim y ny Ay), ?(axis_dim z nz Az),
          ?(dim3_0 v nx ny nz Sv), ?(dim3_1 v nx ny nz Sv), ?(dim3_2 v nx ny nz Sv) in Eu.
  rewrite (proj2 (Rleb_true _ _) Hx0), (proj2 (Rleb_true _ _) Hx1),
          (proj2 (Rleb_true _ _) Hy0), (proj2 (Rleb_true _ _) Hy1),
          (proj2 (Rleb_true _ _) Hz0), (proj2 (Rleb_true _ _) Hz1).
  cbn [andb negb].
  remember (searchsorted_right x xq - 1)%Z as i1 eqn:Ei1. clear Ei1.
  remember (searchsorted_right y yq - 1)%Z as j1 eqn:Ej1. clear Ej1.
  remember (searchsorted_right z zq - 1)%Z as k1 eqn:Ek1. clear Ek1.
  axis_split Cx i1 Eu; axis_split Cy j1 Eu; axis_split Cz k1 Eu; branch_done u.
Qed.


(* ================================================================== *)
(* 3. pure real-number facts about the trilinear formula                *)
(* ================================================================== *)
(* linear blend in z of the bilinear interpolants on the two z-faces *)
Lemma trilin_core_split x1 x2 y1 y2 z1 z2 v111 v211 v121 v221 v112 v212 v122 v222 xq yq zq :
  trilin_core x1 x2 y1 y2 z1 z2 v111 v211 v121 v221 v112 v212 v122 v222 xq yq zq =
  (1 - (zq - z1) / (z2 - z1)) * bilin_core x1 x2 y1 y2 v111 v211 v121 v221 xq yq +
  (zq - z1) / (z2 - z1) * bilin_core x1 x2 y1 y2 v112 v212 v122 v222 xq yq.
Proof. unfold trilin_core, bilin_core. ring. Qed.

Lemma trilin_core_corners x1 x2 y1 y2 z1 z2 v111 v211 v121 v221 v112 v212 v122 v222 :
  x1 <> x2 -> y1 <> y2 -> z1 <> z2 ->
  let f := trilin_core x1 x2 y1 y2 z1 z2 v111 v211 v121 v221 v112 v212 v122 v222 in
  f x1 y1 z1 = v111 /\ f x2 y1 z1 = v211 /\ f x1 y2 z1 = v121 /\ f x2 y2 z1 = v221 /\
  f x1 y1 z2 = v112 /\ f x2 y1 z2 = v212 /\ f x1 y2 z2 = v122 /\ f x2 y2 z2 = v222.
Proof. intros Hx Hy Hz f. unfold f, trilin_core. repeat split; field; lra. Qed.

Lemma trilin_core_convex x1 x2 y1 y2 z1 z2 v111 v211 v121 v221 v112 v212 v122 v222 xq yq zq lo hi :
  x1 < x2 -> x1 <= xq <= x2 -> y1 < y2 -> y1 <= yq <= y2 -> z1 < z2 -> z1 <= zq <= z2 ->
  lo <= v111 <= hi -> lo <= v211 <= hi -> lo <= v121 <= hi -> lo <= v221 <= hi ->
  lo <= v112 <= hi -> lo <= v212 <= hi -> lo <= v122 <= hi -> lo <= v222 <= hi ->
  lo <= trilin_core x1 x2 y1 y2 z1 z2 v111 v211 v121 v221 v112 v212 v122 v222 xq yq zq <= hi.
Proof.
  intros Hx Hxq Hy Hyq Hz Hzq H111 H211 H121 H221 H112 H212 H122 H222.
  rewrite trilin_core_split.
  pose proof (bilin_core_convex x1 x2 y1 y2 v111 v211 v121 v221 xq yq lo hi Hx Hxq Hy Hyq H111 H211 H121 H221) as B1.
  pose proof (bilin_core_convex x1 x2 y1 y2 v112 v212 v122 v222 xq yq lo hi Hx Hxq Hy Hyq H112 H212 H122 H222) as B2.
  pose proof (unit_param z1 z2 zq Hz Hzq) as Tz.
  set (tz := (zq - z1) / (z2 - z1)) in *.
  set (b1 := bilin_core x1 x2 y1 y2 v111 v211 v121 v221 xq yq) in *.
  set (b2 := bilin_core x1 x2 y1 y2 v112 v212 v122 v222 xq yq) in *.
  split; nra.
Qed.

Lemma trilin_core_exact x1 x2 y1 y2 z1 z2 xq yq zq a b c d e f g h :
  x1 <> x2 -> y1 <> y2 -> z1 <> z2 ->
  let p := fun X Y Z => a + b * X + c * Y + d * Z + e * X * Y + f * X * Z + g * Y * Z + h * X * Y * Z in
  trilin_core x1 x2 y1 y2 z1 z2 (p x1 y1 z1) (p x2 y1 z1) (p x1 y2 z1) (p x2 y2 z1)
              (p x1 y1 z2) (p x2 y1 z2) (p x1 y2 z2) (p x2 y2 z2) xq yq zq = p xq yq zq.
Proof. intros Hx Hy Hz p. unfold p, trilin_core. field. lra. Qed.

(* ================================================================== *)
(* 4. corollaries of the specification                                  *)
(* ================================================================== *)
Section Corollaries.
Variables (x y z v : arr R) (nx ny nz : Z).
Hypothesis Ax : axis x nx.
Hypothesis Ay : axis y ny.
Hypothesis Az : axis z nz.
Hypothesis Sv : shape v = [nx; ny; nz].

(* at a node the node value is returned: every node, far faces, edges and corner included *)
Theorem interp3d_node (k l m : Z) (fval : R) : (0 <= k < nx)%Z -> (0 <= l < ny)%Z -> (0 <= m < nz)%Z ->
  u_interp3d_v x y z v (get 0 x [k]) (get 0 y [l]) (get 0 z [m]) fval = get 0 v [k; l; m].
Proof.
  intros Hk Hl Hm.
  rewrite (interp3d_spec x y z v nx ny nz _ _ _ fval Ax Ay Az Sv
             (hull_node x nx k Ax Hk) (hull_node y ny l Ay Hl) (hull_node z nz m Az Hm)).
  rewrite (cell_node x nx k Ax Hk), (cell_node y ny l Ay Hl), (cell_node z nz m Az Hm).
  pose proof (axis_n _ _ Ax) as Nx. pose proof (axis_n _ _ Ay) as Ny. pose proof (axis_n _ _ Az) as Nz.
  remember (Z.min k (nx - 2)) as c eqn:Ec. remember (Z.min l (ny - 2)) as e eqn:Ee.
  remember (Z.min m (nz - 2)) as r eqn:Er.
  assert (Hc : (0 <= c <= nx - 2)%Z) by lia. assert (He : (0 <= e <= ny - 2)%Z) by lia.
  assert (Hr : (0 <= r <= nz - 2)%Z) by lia.
  pose proof (axis_lt x nx c (c + 1) Ax ltac:(lia)) as Dx.
  pose proof (axis_lt y ny e (e + 1) Ay ltac:(lia)) as Dy.
  pose proof (axis_lt z nz r (r + 1) Az ltac:(lia)) as Dz.
  unfold trilin.
  destruct (trilin_core_corners (get 0 x [c]) (get 0 x [(c + 1)%Z]) (get 0 y [e]) (get 0 y [(e + 1)%Z])
              (get 0 z [r]) (get 0 z [(r + 1)%Z])
              (get 0 v [c; e; r]) (get 0 v [(c + 1)%Z; e; r])
              (get 0 v [c; (e + 1)%Z; r]) (get 0 v [(c + 1)%Z; (e + 1)%Z; r])
              (get 0 v [c; e; (r + 1)%Z]) (get 0 v [(c + 1)%Z; e; (r + 1)%Z])
              (get 0 v [c; (e + 1)%Z; (r + 1)%Z]) (get 0 v [(c + 1)%Z; (e + 1)%Z; (r + 1)%Z])
              ltac:(lra) ltac:(lra) ltac:(lra)) as (C1 & C2 & C3 & C4 & C5 & C6 & C7 & C8).
  assert (Kc : k = c \/ k = (c + 1)%Z) by lia. assert (Le : l = e \/ l = (e + 1)%Z) by lia.
  assert (Mr : m = r \/ m = (r + 1)%Z) by lia.
  clear Ec Ee Er.
  destruct Kc as [-> | ->]; destruct Le as [-> | ->]; destruct Mr as [-> | ->]; assumption.
Qed.

Section InHull.
Variables (xq yq zq fval : R).
Hypothesis Hx : get 0 x [0%Z] <= xq <= get 0 x [(nx - 1)%Z].
Hypothesis Hy : get 0 y [0%Z] <= yq <= get 0 y [(ny - 1)%Z].
Hypothesis Hz : get 0 z [0%Z] <= zq <= get 0 z [(nz - 1)%Z].

(* the result lies between the smallest and the largest corner value of the enclosing cell *)
Theorem interp3d_convex (lo hi : R) :
  let i := cell x nx xq in let j := cell y ny yq in let k := cell z nz zq in
  lo <= get 0 v [i; j; k] <= hi -> lo <= get 0 v [(i + 1)%Z; j; k] <= hi ->
  lo <= get 0 v [i; (j + 1)%Z; k] <= hi -> lo <= get 0 v [(i + 1)%Z; (j + 1)%Z; k] <= hi ->
  lo <= get 0 v [i; j; (k + 1)%Z] <= hi -> lo <= get 0 v [(i + 1)%Z; j; (k + 1)%Z] <= hi ->
  lo <= get 0 v [i; (j + 1)%Z; (k + 1)%Z] <= hi -> lo <= get 0 v [(i + 1)%Z; (j + 1)%Z; (k + 1)%Z] <= hi ->
  lo <= u_interp3d_v x y z v xq yq zq fval <= hi.
Proof.
  intros i j k H111 H211 H121 H221 H112 H212 H122 H222.
  rewrite (interp3d_spec x y z v nx ny nz xq yq zq fval Ax Ay Az Sv Hx Hy Hz). fold i j k. unfold trilin.
  destruct (cell_facts x nx xq Ax (proj1 Hx) (proj2 Hx)) as (_ & Bx & Dx).
  destruct (cell_facts y ny yq Ay (proj1 Hy) (proj2 Hy)) as (_ & By & Dy).
  destruct (cell_facts z nz zq Az (proj1 Hz) (proj2 Hz)) as (_ & Bz & Dz).
  fold i in Bx, Dx. fold j in By, Dy. fold k in Bz, Dz.
  apply trilin_core_convex; assumption.
Qed.

(* exact on every trilinear polynomial (8 coefficients) *)
Theorem interp3d_multilinear_exact (a b c d e f g h : R) :
  let p := fun X Y Z => a + b * X + c * Y + d * Z + e * X * Y + f * X * Z + g * Y * Z + h * X * Y * Z in
  (forall i j k, (0 <= i < nx)%Z -> (0 <= j < ny)%Z -> (0 <= k < nz)%Z ->
     get 0 v [i; j; k] = p (get 0 x [i]) (get 0 y [j]) (get 0 z [k])) ->
  u_interp3d_v x y z v xq yq zq fval = p xq yq zq.
Proof.
  intros p Hv.
  rewrite (interp3d_spec x y z v nx ny nz xq yq zq fval Ax Ay Az Sv Hx Hy Hz). unfold trilin.
  destruct (cell_facts x nx xq Ax (proj1 Hx) (proj2 Hx)) as (Ix & _ & Dx).
  destruct (cell_facts y ny yq Ay (proj1 Hy) (proj2 Hy)) as (Iy & _ & Dy).
  destruct (cell_facts z nz zq Az (proj1 Hz) (proj2 Hz)) as (Iz & _ & Dz).
  rewrite !Hv by lia. apply trilin_core_exact; lra.
Qed.
End InHull.

(* one axis of a face-continuity statement: parameter 1 in the left cell, 0 in the right cell *)
Ltac face_axis a n k A :=
  unfold trilin, trilin_core; cbv zeta;
  replace (k - 1 + 1)%Z with k by lia;
  let D := fresh "D" in
  pose proof (axis_lt a n (k - 1) k A ltac:(lia)) as D;
  replace ((get 0 a [k] - get 0 a [(k - 1)%Z]) / (get 0 a [k] - get 0 a [(k - 1)%Z])) with 1 by (field; lra);
  replace ((get 0 a [k] - get 0 a [k]) / (get 0 a [(k + 1)%Z] - get 0 a [k])) with 0 by (unfold Rdiv; ring);
  ring.

(* across a cell face (all three directions) the two adjacent cells give the same value *)
Theorem interp3d_continuous_faces :
  (forall k j l yq zq, (0 < k < nx - 1)%Z ->
     trilin x y z v (k - 1) j l (get 0 x [k]) yq zq = trilin x y z v k j l (get 0 x [k]) yq zq) /\
  (forall i k l xq zq, (0 < k < ny - 1)%Z ->
     trilin x y z v i (k - 1) l xq (get 0 y [k]) zq = trilin x y z v i k l xq (get 0 y [k]) zq) /\
  (forall i j k xq yq, (0 < k < nz - 1)%Z ->
     trilin x y z v i j (k - 1) xq yq (get 0 z [k]) = trilin x y z v i j k xq yq (get 0 z [k])).
Proof.
  split; [|split].
  - intros k j l yq zq Hk. face_axis x nx k Ax.
  - intros i k l xq zq Hk. face_axis y ny k Ay.
  - intros i j k xq yq Hk. face_axis z nz k Az.
Qed.

(* hence the kernel agrees with the trilinear formula of ANY closed cell that contains the query *)
Theorem interp3d_spec_any_cell (i j k : Z) (xq yq zq fval : R) :
  (0 <= i <= nx - 2)%Z -> (0 <= j <= ny - 2)%Z -> (0 <= k <= nz - 2)%Z ->
  get 0 x [i] <= xq <= get 0 x [(i + 1)%Z] -> get 0 y [j] <= yq <= get 0 y [(j + 1)%Z] ->
  get 0 z [k] <= zq <= get 0 z [(k + 1)%Z] ->
  u_interp3d_v x y z v xq yq zq fval = trilin x y z v i j k xq yq zq.
Proof.
  intros Hi Hj Hk Bx By Bz.
  assert (Hx : get 0 x [0%Z] <= xq <= get 0 x [(nx - 1)%Z]).
  { pose proof (axis_le x nx 0 i Ax ltac:(lia)). pose proof (axis_le x nx (i + 1) (nx - 1) Ax ltac:(lia)). lra. }
  assert (Hy : get 0 y [0%Z] <= yq <= get 0 y [(ny - 1)%Z]).
  { pose proof (axis_le y ny 0 j Ay ltac:(lia)). pose proof (axis_le y ny (j + 1) (ny - 1) Ay ltac:(lia)). lra. }
  assert (Hz : get 0 z [0%Z] <= zq <= get 0 z [(nz - 1)%Z]).
  { pose proof (axis_le z nz 0 k Az ltac:(lia)). pose proof (axis_le z nz (k + 1) (nz - 1) Az ltac:(lia)). lra. }
  rewrite (interp3d_spec x y z v nx ny nz xq yq zq fval Ax Ay Az Sv Hx Hy Hz).
  destruct interp3d_continuous_faces as (Fx & Fy & Fz).
  destruct (cell_any x nx xq i Ax Hi Bx) as [-> | (Eq & -> & Hi')];
    [| subst xq; rewrite <- Fx by lia; replace (i + 1 - 1)%Z with i by lia];
  (destruct (cell_any y ny yq j Ay Hj By) as [-> | (Eq' & -> & Hj')];
    [| subst yq; rewrite <- Fy by lia; replace (j + 1 - 1)%Z with j by lia]);
  (destruct (cell_any z nz zq k Az Hk Bz) as [-> | (Eq'' & -> & Hk')];
    [| subst zq; rewrite <- Fz by lia; replace (k + 1 - 1)%Z with k by lia]);
  reflexivity.
Qed.
End Corollaries.

(* the three hull tests, as booleans *)
Local Notation inhull a q :=
  (nleb (get (nofZ 0) a [0%Z]) q && nleb q (get (nofZ 0) a [Z.sub (dim a 0%nat) 1])) (only parsing).

Lemma inhull_true (a : arr R) n q : axis a n -> inhull a q = true ->
  get 0 a [0%Z] <= q <= get 0 a [(n - 1)%Z].
Proof.
  intros A E. apply andb_prop in E as [E0 E1]. rewrite (axis_dim _ _ A) in E1.
  apply Rleb_true in E0, E1. split; assumption.
Qed.

(* swapping the first two axes (and transposing the node values accordingly) does not change the
   result; holds for every query, inside or outside the hull *)
Theorem interp3d_axis_swap (x y z v vt : arr R) (nx ny nz : Z) (xq yq zq fval : R) :
  axis x nx -> axis y ny -> axis z nz -> shape v = [nx; ny; nz] -> shape vt = [ny; nx; nz] ->
  (forall i j k, (0 <= i < nx)%Z -> (0 <= j < ny)%Z -> (0 <= k < nz)%Z ->
     get 0 vt [j; i; k] = get 0 v [i; j; k]) ->
  u_interp3d_v x y z v xq yq zq fval = u_interp3d_v y x z vt yq xq zq fval.
Proof.
  intros Ax Ay Az Sv Svt Ht.
  destruct (inhull x xq) eqn:Ex; destruct (inhull y yq) eqn:Ey; destruct (inhull z zq) eqn:Ez;
  try (rewrite (interp3d_outside x y z v xq yq zq fval) by (rewrite Ex, Ey, Ez; reflexivity);
       rewrite (interp3d_outside y x z vt yq xq zq fval) by (rewrite Ex, Ey, Ez; reflexivity);
       reflexivity).
  pose proof (inhull_true x nx xq Ax Ex) as Hx. pose proof (inhull_true y ny yq Ay Ey) as Hy.
  pose proof (inhull_true z nz zq Az Ez) as Hz.
  rewrite (interp3d_spec x y z v nx ny nz xq yq zq fval Ax Ay Az Sv Hx Hy Hz).
  rewrite (interp3d_spec y x z vt ny nx nz yq xq zq fval Ay Ax Az Svt Hy Hx Hz).
  destruct (cell_facts x nx xq Ax (proj1 Hx) (proj2 Hx)) as (Ix & _).
  destruct (cell_facts y ny yq Ay (proj1 Hy) (proj2 Hy)) as (Iy & _).
  destruct (cell_facts z nz zq Az (proj1 Hz) (proj2 Hz)) as (Iz & _).
  unfold trilin. rewrite !Ht by lia. unfold trilin_core. ring.
Qed.

(* swapping the last two axes; together with the previous transposition this generates all six
   permutations of the axes *)
Theorem interp3d_axis_swap_yz (x y z v vt : arr R) (nx ny nz : Z) (xq yq zq fval : R) :
  axis x nx -> axis y ny -> axis z nz -> shape v = [nx; ny; nz] -> shape vt = [nx; nz; ny] ->
  (forall i j k, (0 <= i < nx)%Z -> (0 <= j < ny)%Z -> (0 <= k < nz)%Z ->
     get 0 vt [i; k; j] = get 0 v [i; j; k]) ->
  u_interp3d_v x y z v xq yq zq fval = u_interp3d_v x z y vt xq zq yq fval.
Proof.
  intros Ax Ay Az Sv Svt Ht.
  destruct (inhull x xq) eqn:Ex; destruct (inhull y yq) eqn:Ey; destruct (inhull z zq) eqn:Ez;
  try (rewrite (interp3d_outside x y z v xq yq zq fval) by (rewrite Ex, Ey, Ez; reflexivity);
       rewrite (interp3d_outside x z y vt xq zq yq fval) by (rewrite Ex, Ey, Ez; reflexivity);
       reflexivity).
  pose proof (inhull_true x nx xq Ax Ex) as Hx. pose proof (inhull_true y ny yq Ay Ey) as Hy.
  pose proof (inhull_true z nz zq Az Ez) as Hz.
  rewrite (interp3d_spec x y z v nx ny nz xq yq zq fval Ax Ay Az Sv Hx Hy Hz).
  rewrite (interp3d_spec x z y vt nx nz ny xq zq yq fval Ax Az Ay Svt Hx Hz Hy).
  destruct (cell_facts x nx xq Ax (proj1 Hx) (proj2 Hx)) as (Ix & _).
  destruct (cell_facts y ny yq Ay (proj1 Hy) (proj2 Hy)) as (Iy & _).
  destruct (cell_facts z nz zq Az (proj1 Hz) (proj2 Hz)) as (Iz & _).
  unfold trilin. rewrite !Ht by lia. unfold trilin_core. ring.
Qed.

(* ================================================================== *)
(* 5. concrete transposes; composing the two transpositions             *)
(* ================================================================== *)
Definition transpose3_xy (v : arr R) : arr R :=
  tab3 (dim v 1%nat) (dim v 0%nat) (dim v 2%nat) (fun j i k => get 0 v [i; j; k]).
Definition transpose3_yz (v : arr R) : arr R :=
  tab3 (dim v 0%nat) (dim v 2%nat) (dim v 1%nat) (fun i k j => get 0 v [i; j; k]).

Lemma transpose3_xy_spec (v : arr R) nx ny nz : (0 <= nx)%Z -> (0 <= ny)%Z -> (0 <= nz)%Z ->
  shape v = [nx; ny; nz] ->
  wf (transpose3_xy v) /\ shape (transpose3_xy v) = [ny; nx; nz] /\
  forall i j k, (0 <= i < nx)%Z -> (0 <= j < ny)%Z -> (0 <= k < nz)%Z ->
    get 0 (transpose3_xy v) [j; i; k] = get 0 v [i; j; k].
Proof.
  intros Hx Hy Hz Sv. unfold transpose3_xy.
  rewrite (dim3_0 v _ _ _ Sv), (dim3_1 v _ _ _ Sv), (dim3_2 v _ _ _ Sv).
  split; [apply wf_tab3; assumption|]. split; [reflexivity|].
  intros i j k Hi Hj Hk. rewrite get_tab3 by assumption. reflexivity.
Qed.

Lemma transpose3_yz_spec (v : arr R) nx ny nz : (0 <= nx)%Z -> (0 <= ny)%Z -> (0 <= nz)%Z ->
  shape v = [nx; ny; nz] ->
  wf (transpose3_yz v) /\ shape (transpose3_yz v) = [nx; nz; ny] /\
  forall i j k, (0 <= i < nx)%Z -> (0 <= j < ny)%Z -> (0 <= k < nz)%Z ->
    get 0 (transpose3_yz v) [i; k; j] = get 0 v [i; j; k].
Proof.
  intros Hx Hy Hz Sv. unfold transpose3_yz.
  rewrite (dim3_0 v _ _ _ Sv), (dim3_1 v _ _ _ Sv), (dim3_2 v _ _ _ Sv).
  split; [apply wf_tab3; assumption|]. split; [reflexivity|].
  intros i j k Hi Hj Hk. rewrite get_tab3 by assumption. reflexivity.
Qed.

Section Permutations.
Variables (x y z v : arr R) (nx ny nz : Z) (xq yq zq fval : R).
Hypothesis Ax : axis x nx.
Hypothesis Ay : axis y ny.
Hypothesis Az : axis z nz.
Hypothesis Sv : shape v = [nx; ny; nz].

Corollary interp3d_axis_swap_xy_transpose :
  u_interp3d_v x y z v xq yq zq fval = u_interp3d_v y x z (transpose3_xy v) yq xq zq fval.
Proof.
  pose proof (axis_n _ _ Ax). pose proof (axis_n _ _ Ay). pose proof (axis_n _ _ Az).
  destruct (transpose3_xy_spec v nx ny nz ltac:(lia) ltac:(lia) ltac:(lia) Sv) as (_ & St & Gt).
  apply (interp3d_axis_swap x y z v (transpose3_xy v) nx ny nz); assumption.
Qed.

Corollary interp3d_axis_swap_yz_transpose :
  u_interp3d_v x y z v xq yq zq fval = u_interp3d_v x z y (transpose3_yz v) xq zq yq fval.
Proof.
  pose proof (axis_n _ _ Ax). pose proof (axis_n _ _ Ay). pose proof (axis_n _ _ Az).
  destruct (transpose3_yz_spec v nx ny nz ltac:(lia) ltac:(lia) ltac:(lia) Sv) as (_ & St & Gt).
  apply (interp3d_axis_swap_yz x y z v (transpose3_yz v) nx ny nz); assumption.
Qed.
End Permutations.

(* the two transpositions compose: a cyclic permutation of the axes (the remaining permutations likewise) *)
Corollary interp3d_axis_cycle (x y z v : arr R) (nx ny nz : Z) (xq yq zq fval : R) :
  axis x nx -> axis y ny -> axis z nz -> shape v = [nx; ny; nz] ->
  u_interp3d_v x y z v xq yq zq fval =
  u_interp3d_v y z x (transpose3_yz (transpose3_xy v)) yq zq xq fval.
Proof.
  intros Ax Ay Az Sv.
  pose proof (axis_n _ _ Ax). pose proof (axis_n _ _ Ay). pose proof (axis_n _ _ Az).
  destruct (transpose3_xy_spec v nx ny nz ltac:(lia) ltac:(lia) ltac:(lia) Sv) as (_ & St & _).
  rewrite (interp3d_axis_swap_xy_transpose x y z v nx ny nz xq yq zq fval Ax Ay Az Sv).
  apply (interp3d_axis_swap_yz_transpose y x z (transpose3_xy v) ny nx nz); assumption.
Qed.

Print Assumptions interp3d_outside.
Print Assumptions interp3d_spec.
Print Assumptions interp3d_node.
Print Assumptions interp3d_convex.
Print Assumptions interp3d_multilinear_exact.
Print Assumptions interp3d_continuous_faces.
Print Assumptions interp3d_spec_any_cell.
Print Assumptions interp3d_axis_swap.
Print Assumptions interp3d_axis_swap_yz.
Print Assumptions interp3d_axis_cycle.
