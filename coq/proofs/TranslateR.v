(* Origin invariance of the interpolation kernels (exact real arithmetic, T := R).
   Translating the grid axes, the query point and (for the apparent-velocity kernels) the source by
   one common vector leaves the value returned by
       _interp2d / _interp3d / _vinterp2d / _vinterp3d
   unchanged, for EVERY query (inside or outside the hull, source cell, zero corner time, far faces).
   `shift_axis o x` is the axis whose nodes are o + x_k.  `shift_axis 0 x = x`: omitting the origin
   equals passing zero. *)
From Coq Require Import ZArith List Bool Reals Lra Lia.
From FT.lib Require Import Num Arr NumArr ArrLemmas.
From FT.gen Require Import Common Interp2d Interp3d Vinterp2d Vinterp3d.
From FT.proofs Require Import SSR InterpR Interp3R VinterpR Vinterp3R.
Import ListNotations.
Open Scope R_scope.

(* ================================================================== *)
(* 1. the translated axis                                               *)
(* ================================================================== *)
Definition shift_axis (o : R) (x : arr R) : arr R := amap (Rplus o) x.

Lemma shift_shape o x : shape (shift_axis o x) = shape x.
Proof. reflexivity. Qed.
Lemma shift_dat o x : dat (shift_axis o x) = map (Rplus o) (dat x).
Proof. reflexivity. Qed.
Lemma shift_dim o x k : dim (shift_axis o x) k = dim x k.
Proof. reflexivity. Qed.
Lemma shift_length o x : length (dat (shift_axis o x)) = length (dat x).
Proof. rewrite shift_dat. apply map_length. Qed.

(* any multi-index that addresses a stored entry *)
Lemma shift_get_stored o x idx : (Z.to_nat (flat (shape x) idx) < length (dat x))%nat ->
  get 0 (shift_axis o x) idx = o + get 0 x idx.
Proof.
  intros Hk. unfold get. rewrite shift_shape, shift_dat.
  rewrite (nth_indep _ 0 (o + 0)) by (rewrite map_length; exact Hk).
  apply (map_nth (Rplus o)).
Qed.

(* a 1-D array of n entries (SSR.axis1), in particular an interpolation axis *)
Lemma shift_get1 o x n k : axis1 x n -> (0 <= k < n)%Z ->
  get 0 (shift_axis o x) [k] = o + get 0 x [k].
Proof.
  intros [S L] Hk. apply shift_get_stored. rewrite S, L. unfold flat. cbn [flat_aux]. lia.
Qed.

Lemma shift_get o x n k : axis x n -> (0 <= k < n)%Z ->
  get 0 (shift_axis o x) [k] = o + get 0 x [k].
Proof. intros A. apply shift_get1. apply axis_axis1. exact A. Qed.

Lemma axis_shift o x n : axis x n -> axis (shift_axis o x) n.
Proof.
  intros A. pose proof A as (S & L & N & Asc). repeat split.
  - rewrite shift_shape. exact S.
  - rewrite shift_length. exact L.
  - exact N.
  - intros i j Hij. rewrite (shift_get o x n i A), (shift_get o x n j A) by lia.
    apply Rplus_lt_compat_l. apply Asc. exact Hij.
Qed.

(* ================================================================== *)
(* 5. no origin = zero origin                                           *)
(* ================================================================== *)
Lemma shift_axis_0 x : shift_axis 0 x = x.
Proof.
  destruct x as [sh l]. unfold shift_axis, amap. cbn [shape dat]. f_equal.
  rewrite <- (map_id l) at 2. apply map_ext. intros a. apply Rplus_0_l.
Qed.

Theorem none_origin_is_zero x :
  (forall k, get 0 (shift_axis 0 x) [k] = get 0 x [k]) /\ shape (shift_axis 0 x) = shape x.
Proof. rewrite shift_axis_0. split; reflexivity. Qed.

(* shifting twice is shifting by the sum (a translated grid can be translated back) *)
Lemma shift_axis_add a b x : shift_axis a (shift_axis b x) = shift_axis (a + b) x.
Proof.
  unfold shift_axis, amap. cbn [shape dat]. f_equal. rewrite map_map. apply map_ext. intros r. ring.
Qed.

(* ================================================================== *)
(* 2. searchsorted is translation invariant (any list, sorted or not)   *)
(* ================================================================== *)
Lemma Rltb_shift o a b : Rltb (o + a) (o + b) = Rltb a b.
Proof. unfold Rltb. destruct (Rlt_dec (o + a) (o + b)), (Rlt_dec a b); auto; exfalso; lra. Qed.
Lemma Rleb_shift o a b : Rleb (o + a) (o + b) = Rleb a b.
Proof. unfold Rleb. destruct (Rle_dec (o + a) (o + b)), (Rle_dec a b); auto; exfalso; lra. Qed.

Lemma ssr_list_shift o (l : list R) q : ssr_list (map (Rplus o) l) (o + q) = ssr_list l q.
Proof.
  induction l as [|e t IH]; [reflexivity|]. cbn [map ssr_list].
  change (@nltb R NumR) with Rltb. rewrite Rltb_shift, IH. reflexivity.
Qed.

Theorem ssr_shift o x q : searchsorted_right (shift_axis o x) (o + q) = searchsorted_right x q.
Proof. unfold searchsorted_right. rewrite shift_dat. apply ssr_list_shift. Qed.

Lemma cell_shift o x n q : cell (shift_axis o x) n (o + q) = cell x n q.
Proof. unfold cell. rewrite ssr_shift. reflexivity. Qed.
Lemma far_shift o x n q : far (shift_axis o x) n (o + q) = far x n q.
Proof. unfold far. rewrite ssr_shift. reflexivity. Qed.

(* ---------- the kernels' hull test on one axis ---------- *)
Definition inhullb (a : arr R) (q : R) : bool :=
  @nleb R NumR (get (@nofZ R NumR 0%Z) a [0%Z]) q &&
  @nleb R NumR q (get (@nofZ R NumR 0%Z) a [(dim a 0%nat - 1)%Z]).

Lemma inhullb_shift o a n q : axis a n -> inhullb (shift_axis o a) (o + q) = inhullb a q.
Proof.
  intros A. pose proof (axis_n _ _ A) as N. unfold inhullb.
  rewrite shift_dim, (axis_dim a n A). cbn [nleb nofZ NumR].
  rewrite (shift_get o a n 0 A), (shift_get o a n (n - 1) A) by lia.
  rewrite !Rleb_shift. reflexivity.
Qed.

Lemma inhullb_true a n q : axis a n -> inhullb a q = true ->
  get 0 a [0%Z] <= q <= get 0 a [(n - 1)%Z].
Proof.
  intros A E. unfold inhullb in E. apply andb_prop in E as [E0 E1]. rewrite (axis_dim _ _ A) in E1.
  cbn [nleb nofZ NumR] in E0, E1. apply Rleb_true in E0, E1. split; assumption.
Qed.

Lemma hull_shift o a n q : axis a n ->
  get 0 a [0%Z] <= q <= get 0 a [(n - 1)%Z] ->
  get 0 (shift_axis o a) [0%Z] <= o + q <= get 0 (shift_axis o a) [(n - 1)%Z].
Proof.
  intros A H. pose proof (axis_n _ _ A) as N.
  rewrite (shift_get o a n 0 A), (shift_get o a n (n - 1) A) by lia. lra.
Qed.

(* ---------- formulas that only involve coordinate differences ---------- *)
Lemma bilin_core_shift o p x1 x2 y1 y2 a b c d xq yq :
  bilin_core (o + x1) (o + x2) (p + y1) (p + y2) a b c d (o + xq) (p + yq) =
  bilin_core x1 x2 y1 y2 a b c d xq yq.
Proof.
  unfold bilin_core. cbv zeta.
  replace (o + xq - (o + x1)) with (xq - x1) by ring.
  replace (o + x2 - (o + x1)) with (x2 - x1) by ring.
  replace (p + yq - (p + y1)) with (yq - y1) by ring.
  replace (p + y2 - (p + y1)) with (y2 - y1) by ring.
  reflexivity.
Qed.

Lemma trilin_core_shift o p r x1 x2 y1 y2 z1 z2 a b c d e f g h xq yq zq :
  trilin_core (o + x1) (o + x2) (p + y1) (p + y2) (r + z1) (r + z2) a b c d e f g h
              (o + xq) (p + yq) (r + zq) =
  trilin_core x1 x2 y1 y2 z1 z2 a b c d e f g h xq yq zq.
Proof.
  unfold trilin_core. cbv zeta.
  replace (o + xq - (o + x1)) with (xq - x1) by ring.
  replace (o + x2 - (o + x1)) with (x2 - x1) by ring.
  replace (p + yq - (p + y1)) with (yq - y1) by ring.
  replace (p + y2 - (p + y1)) with (y2 - y1) by ring.
  replace (r + zq - (r + z1)) with (zq - z1) by ring.
  replace (r + z2 - (r + z1)) with (z2 - z1) by ring.
  reflexivity.
Qed.

Lemma dist2d_shift o p a b c d : dist2d (o + a) (p + b) (o + c) (p + d) = dist2d a b c d.
Proof. rewrite !dist2d_R. f_equal. ring. Qed.
Lemma dist3d_shift o p r a b c d e f :
  dist3d (o + a) (p + b) (r + c) (o + d) (p + e) (r + f) = dist3d a b c d e f.
Proof. rewrite !dist3d_R. f_equal. ring. Qed.

(* ================================================================== *)
(* 3. _interp2d / _interp3d                                             *)
(* ================================================================== *)
Lemma bilin_shift ox oy x y v nx ny i j xq yq : axis x nx -> axis y ny ->
  (0 <= i <= nx - 2)%Z -> (0 <= j <= ny - 2)%Z ->
  bilin (shift_axis ox x) (shift_axis oy y) v i j (ox + xq) (oy + yq) = bilin x y v i j xq yq.
Proof.
  intros Ax Ay Hi Hj. unfold bilin.
  rewrite (shift_get ox x nx i Ax), (shift_get ox x nx (i + 1) Ax),
          (shift_get oy y ny j Ay), (shift_get oy y ny (j + 1) Ay) by lia.
  apply bilin_core_shift.
Qed.

Theorem interp2d_translate (ox oy : R) (x y v : arr R) (nx ny : Z) (xq yq fval : R) :
  axis x nx -> axis y ny -> shape v = [nx; ny] ->
  u_interp2d_v (shift_axis ox x) (shift_axis oy y) v (ox + xq) (oy + yq) fval =
  u_interp2d_v x y v xq yq fval.
Proof.
  intros Ax Ay Sv.
  pose proof (axis_shift ox x nx Ax) as Ax'. pose proof (axis_shift oy y ny Ay) as Ay'.
  destruct (inhullb x xq && inhullb y yq)%bool eqn:E.
  - apply andb_prop in E as [Ex Ey].
    pose proof (inhullb_true x nx xq Ax Ex) as Hx. pose proof (inhullb_true y ny yq Ay Ey) as Hy.
    rewrite (interp2d_spec _ _ v nx ny _ _ fval Ax' Ay' Sv
               (hull_shift ox x nx xq Ax Hx) (hull_shift oy y ny yq Ay Hy)).
    rewrite (interp2d_spec x y v nx ny xq yq fval Ax Ay Sv Hx Hy).
    rewrite !cell_shift.
    destruct (cell_facts x nx xq Ax (proj1 Hx) (proj2 Hx)) as (Ix & _).
    destruct (cell_facts y ny yq Ay (proj1 Hy) (proj2 Hy)) as (Iy & _).
    apply (bilin_shift ox oy x y v nx ny); assumption.
  - rewrite (interp2d_outside x y v xq yq fval E).
    apply interp2d_outside. fold (inhullb (shift_axis ox x) (ox + xq)).
    fold (inhullb (shift_axis oy y) (oy + yq)).
    rewrite (inhullb_shift ox x nx xq Ax), (inhullb_shift oy y ny yq Ay). exact E.
Qed.

Lemma trilin_shift ox oy oz x y z v nx ny nz i j k xq yq zq : axis x nx -> axis y ny -> axis z nz ->
  (0 <= i <= nx - 2)%Z -> (0 <= j <= ny - 2)%Z -> (0 <= k <= nz - 2)%Z ->
  trilin (shift_axis ox x) (shift_axis oy y) (shift_axis oz z) v i j k (ox + xq) (oy + yq) (oz + zq) =
  trilin x y z v i j k xq yq zq.
Proof.
  intros Ax Ay Az Hi Hj Hk. unfold trilin.
  rewrite (shift_get ox x nx i Ax), (shift_get ox x nx (i + 1) Ax),
          (shift_get oy y ny j Ay), (shift_get oy y ny (j + 1) Ay),
          (shift_get oz z nz k Az), (shift_get oz z nz (k + 1) Az) by lia.
  apply trilin_core_shift.
Qed.

Theorem interp3d_translate (ox oy oz : R) (x y z v : arr R) (nx ny nz : Z) (xq yq zq fval : R) :
  axis x nx -> axis y ny -> axis z nz -> shape v = [nx; ny; nz] ->
  u_interp3d_v (shift_axis ox x) (shift_axis oy y) (shift_axis oz z) v
               (ox + xq) (oy + yq) (oz + zq) fval =
  u_interp3d_v x y z v xq yq zq fval.
Proof.
  intros Ax Ay Az Sv.
  pose proof (axis_shift ox x nx Ax) as Ax'. pose proof (axis_shift oy y ny Ay) as Ay'.
  pose proof (axis_shift oz z nz Az) as Az'.
  destruct (inhullb x xq && inhullb y yq && inhullb z zq)%bool eqn:E.
  - apply andb_prop in E as [E Ez]. apply andb_prop in E as [Ex Ey].
    pose proof (inhullb_true x nx xq Ax Ex) as Hx. pose proof (inhullb_true y ny yq Ay Ey) as Hy.
    pose proof (inhullb_true z nz zq Az Ez) as Hz.
    rewrite (interp3d_spec _ _ _ v nx ny nz _ _ _ fval Ax' Ay' Az' Sv
               (hull_shift ox x nx xq Ax Hx) (hull_shift oy y ny yq Ay Hy) (hull_shift oz z nz zq Az Hz)).
    rewrite (interp3d_spec x y z v nx ny nz xq yq zq fval Ax Ay Az Sv Hx Hy Hz).
    rewrite !cell_shift.
    destruct (cell_facts x nx xq Ax (proj1 Hx) (proj2 Hx)) as (Ix & _).
    destruct (cell_facts y ny yq Ay (proj1 Hy) (proj2 Hy)) as (Iy & _).
    destruct (cell_facts z nz zq Az (proj1 Hz) (proj2 Hz)) as (Iz & _).
    apply (trilin_shift ox oy oz x y z v nx ny nz); assumption.
  - rewrite (interp3d_outside x y z v xq yq zq fval E).
    apply interp3d_outside. fold (inhullb (shift_axis ox x) (ox + xq)).
    fold (inhullb (shift_axis oy y) (oy + yq)). fold (inhullb (shift_axis oz z) (oz + zq)).
    rewrite (inhullb_shift ox x nx xq Ax), (inhullb_shift oy y ny yq Ay), (inhullb_shift oz z nz zq Az).
    exact E.
Qed.

(* ================================================================== *)
(* 4. _vinterp2d / _vinterp3d                                           *)
(* ================================================================== *)
Lemma appvel2_shift ox oy x y v nx ny xsrc ysrc k l : axis x nx -> axis y ny ->
  (0 <= k < nx)%Z -> (0 <= l < ny)%Z ->
  appvel2 (shift_axis ox x) (shift_axis oy y) v (ox + xsrc) (oy + ysrc) k l =
  appvel2 x y v xsrc ysrc k l.
Proof.
  intros Ax Ay Hk Hl. unfold appvel2.
  rewrite (shift_get ox x nx k Ax Hk), (shift_get oy y ny l Ay Hl), dist2d_shift. reflexivity.
Qed.

Lemma vbilin_shift ox oy x y v nx ny xsrc ysrc i j xq yq : axis x nx -> axis y ny ->
  (0 <= i <= nx - 2)%Z -> (0 <= j <= ny - 2)%Z ->
  vbilin (shift_axis ox x) (shift_axis oy y) v (ox + xsrc) (oy + ysrc) i j (ox + xq) (oy + yq) =
  vbilin x y v xsrc ysrc i j xq yq.
Proof.
  intros Ax Ay Hi Hj. unfold vbilin.
  rewrite !(appvel2_shift ox oy x y v nx ny) by (assumption || lia).
  rewrite (shift_get ox x nx i Ax), (shift_get ox x nx (i + 1) Ax),
          (shift_get oy y ny j Ay), (shift_get oy y ny (j + 1) Ay) by lia.
  rewrite dist2d_shift, bilin_core_shift. reflexivity.
Qed.

Lemma times_ok2_shift ox oy x y v nx ny xq yq :
  times_ok2 (shift_axis ox x) (shift_axis oy y) v nx ny (ox + xq) (oy + yq) =
  times_ok2 x y v nx ny xq yq.
Proof. unfold times_ok2. rewrite !cell_shift, !far_shift. reflexivity. Qed.

Theorem vinterp2d_translate (ox oy : R) (x y v : arr R) (nx ny : Z)
    (xq yq xsrc ysrc vzero fval : R) :
  axis x nx -> axis y ny -> shape v = [nx; ny] ->
  u_vinterp2d_v (shift_axis ox x) (shift_axis oy y) v (ox + xq) (oy + yq)
                (ox + xsrc) (oy + ysrc) vzero fval =
  u_vinterp2d_v x y v xq yq xsrc ysrc vzero fval.
Proof.
  intros Ax Ay Sv.
  pose proof (axis_shift ox x nx Ax) as Ax'. pose proof (axis_shift oy y ny Ay) as Ay'.
  assert (Eh : (inhullb (shift_axis ox x) (ox + xq) && inhullb (shift_axis oy y) (oy + yq))%bool =
               (inhullb x xq && inhullb y yq)%bool)
    by (rewrite (inhullb_shift ox x nx xq Ax), (inhullb_shift oy y ny yq Ay); reflexivity).
  destruct (inhullb x xq && inhullb y yq)%bool eqn:E.
  - destruct (Z.eq_dec (searchsorted_right x xsrc) (searchsorted_right x xq)) as [Sx|Sx];
    [destruct (Z.eq_dec (searchsorted_right y ysrc) (searchsorted_right y yq)) as [Sy|Sy]|].
    + (* the source's cell *)
      rewrite (vinterp2d_source_cell_gen x y v xq yq xsrc ysrc vzero fval E Sx Sy).
      rewrite (vinterp2d_source_cell_gen (shift_axis ox x) (shift_axis oy y) v (ox + xq) (oy + yq)
                 (ox + xsrc) (oy + ysrc) vzero fval Eh); [| rewrite !ssr_shift; assumption ..].
      rewrite dist2d_shift. reflexivity.
    + apply andb_prop in E as [Ex Ey].
      pose proof (inhullb_true x nx xq Ax Ex) as Hx. pose proof (inhullb_true y ny yq Ay Ey) as Hy.
      rewrite (vinterp2d_char x y v nx ny xq yq xsrc ysrc vzero fval Ax Ay Sv Hx Hy) by tauto.
      rewrite (vinterp2d_char _ _ v nx ny _ _ _ _ vzero fval Ax' Ay' Sv
                 (hull_shift ox x nx xq Ax Hx) (hull_shift oy y ny yq Ay Hy))
        by (rewrite !ssr_shift; tauto).
      rewrite times_ok2_shift, !cell_shift, dist2d_shift.
      destruct (cell_facts x nx xq Ax (proj1 Hx) (proj2 Hx)) as (Ix & _).
      destruct (cell_facts y ny yq Ay (proj1 Hy) (proj2 Hy)) as (Iy & _).
      rewrite (vbilin_shift ox oy x y v nx ny) by assumption. reflexivity.
    + apply andb_prop in E as [Ex Ey].
      pose proof (inhullb_true x nx xq Ax Ex) as Hx. pose proof (inhullb_true y ny yq Ay Ey) as Hy.
      rewrite (vinterp2d_char x y v nx ny xq yq xsrc ysrc vzero fval Ax Ay Sv Hx Hy) by tauto.
      rewrite (vinterp2d_char _ _ v nx ny _ _ _ _ vzero fval Ax' Ay' Sv
                 (hull_shift ox x nx xq Ax Hx) (hull_shift oy y ny yq Ay Hy))
        by (rewrite !ssr_shift; tauto).
      rewrite times_ok2_shift, !cell_shift, dist2d_shift.
      destruct (cell_facts x nx xq Ax (proj1 Hx) (proj2 Hx)) as (Ix & _).
      destruct (cell_facts y ny yq Ay (proj1 Hy) (proj2 Hy)) as (Iy & _).
      rewrite (vbilin_shift ox oy x y v nx ny) by assumption. reflexivity.
  - rewrite (vinterp2d_outside x y v xq yq xsrc ysrc vzero fval E).
    apply vinterp2d_outside. exact Eh.
Qed.

Lemma appvel3_shift ox oy oz x y z v nx ny nz xsrc ysrc zsrc k l m :
  axis x nx -> axis y ny -> axis z nz -> (0 <= k < nx)%Z -> (0 <= l < ny)%Z -> (0 <= m < nz)%Z ->
  appvel3 (shift_axis ox x) (shift_axis oy y) (shift_axis oz z) v (ox + xsrc) (oy + ysrc) (oz + zsrc) k l m =
  appvel3 x y z v xsrc ysrc zsrc k l m.
Proof.
  intros Ax Ay Az Hk Hl Hm. unfold appvel3.
  rewrite (shift_get ox x nx k Ax Hk), (shift_get oy y ny l Ay Hl), (shift_get oz z nz m Az Hm),
          dist3d_shift. reflexivity.
Qed.

Lemma vtrilin_shift ox oy oz x y z v nx ny nz xsrc ysrc zsrc i j k xq yq zq :
  axis x nx -> axis y ny -> axis z nz ->
  (0 <= i <= nx - 2)%Z -> (0 <= j <= ny - 2)%Z -> (0 <= k <= nz - 2)%Z ->
  vtrilin (shift_axis ox x) (shift_axis oy y) (shift_axis oz z) v (ox + xsrc) (oy + ysrc) (oz + zsrc)
          i j k (ox + xq) (oy + yq) (oz + zq) =
  vtrilin x y z v xsrc ysrc zsrc i j k xq yq zq.
Proof.
  intros Ax Ay Az Hi Hj Hk. unfold vtrilin. cbv zeta.
  rewrite !(appvel3_shift ox oy oz x y z v nx ny nz) by (assumption || lia).
  rewrite (shift_get ox x nx i Ax), (shift_get ox x nx (i + 1) Ax),
          (shift_get oy y ny j Ay), (shift_get oy y ny (j + 1) Ay),
          (shift_get oz z nz k Az), (shift_get oz z nz (k + 1) Az) by lia.
  rewrite dist3d_shift, trilin_core_shift. reflexivity.
Qed.

Lemma times_ok3_shift ox oy oz x y z v nx ny nz xq yq zq :
  times_ok3 (shift_axis ox x) (shift_axis oy y) (shift_axis oz z) v nx ny nz (ox + xq) (oy + yq) (oz + zq) =
  times_ok3 x y z v nx ny nz xq yq zq.
Proof. unfold times_ok3. rewrite !cell_shift, !far_shift. reflexivity. Qed.

Theorem vinterp3d_translate (ox oy oz : R) (x y z v : arr R) (nx ny nz : Z)
    (xq yq zq xsrc ysrc zsrc vzero fval : R) :
  axis x nx -> axis y ny -> axis z nz -> shape v = [nx; ny; nz] ->
  u_vinterp3d_v (shift_axis ox x) (shift_axis oy y) (shift_axis oz z) v
                (ox + xq) (oy + yq) (oz + zq) (ox + xsrc) (oy + ysrc) (oz + zsrc) vzero fval =
  u_vinterp3d_v x y z v xq yq zq xsrc ysrc zsrc vzero fval.
Proof.
  intros Ax Ay Az Sv.
  pose proof (axis_shift ox x nx Ax) as Ax'. pose proof (axis_shift oy y ny Ay) as Ay'.
  pose proof (axis_shift oz z nz Az) as Az'.
  assert (Eh : (inhullb (shift_axis ox x) (ox + xq) && inhullb (shift_axis oy y) (oy + yq) &&
                inhullb (shift_axis oz z) (oz + zq))%bool =
               (inhullb x xq && inhullb y yq && inhullb z zq)%bool)
    by (rewrite (inhullb_shift ox x nx xq Ax), (inhullb_shift oy y ny yq Ay),
                (inhullb_shift oz z nz zq Az); reflexivity).
  destruct (inhullb x xq && inhullb y yq && inhullb z zq)%bool eqn:E.
  - destruct (Z.eq_dec (searchsorted_right x xsrc) (searchsorted_right x xq)) as [Sx|Sx];
    destruct (Z.eq_dec (searchsorted_right y ysrc) (searchsorted_right y yq)) as [Sy|Sy];
    destruct (Z.eq_dec (searchsorted_right z zsrc) (searchsorted_right z zq)) as [Sz|Sz];
    [ (* the source's cell *)
      rewrite (vinterp3d_source_cell_gen x y z v xq yq zq xsrc ysrc zsrc vzero fval E Sx Sy Sz);
      rewrite (vinterp3d_source_cell_gen (shift_axis ox x) (shift_axis oy y) (shift_axis oz z) v
                 (ox + xq) (oy + yq) (oz + zq) (ox + xsrc) (oy + ysrc) (oz + zsrc) vzero fval Eh);
        [| rewrite !ssr_shift; assumption ..];
      rewrite dist3d_shift; reflexivity
    | .. ];
    ( apply andb_prop in E as [E Ez]; apply andb_prop in E as [Ex Ey];
      pose proof (inhullb_true x nx xq Ax Ex) as Hx; pose proof (inhullb_true y ny yq Ay Ey) as Hy;
      pose proof (inhullb_true z nz zq Az Ez) as Hz;
      rewrite (vinterp3d_char x y z v nx ny nz xq yq zq xsrc ysrc zsrc vzero fval Ax Ay Az Sv Hx Hy Hz)
        by tauto;
      rewrite (vinterp3d_char _ _ _ v nx ny nz _ _ _ _ _ _ vzero fval Ax' Ay' Az' Sv
                 (hull_shift ox x nx xq Ax Hx) (hull_shift oy y ny yq Ay Hy) (hull_shift oz z nz zq Az Hz))
        by (rewrite !ssr_shift; tauto);
      rewrite times_ok3_shift, !cell_shift, dist3d_shift;
      destruct (cell_facts x nx xq Ax (proj1 Hx) (proj2 Hx)) as (Ix & _);
      destruct (cell_facts y ny yq Ay (proj1 Hy) (proj2 Hy)) as (Iy & _);
      destruct (cell_facts z nz zq Az (proj1 Hz) (proj2 Hz)) as (Iz & _);
      rewrite (vtrilin_shift ox oy oz x y z v nx ny nz) by assumption; reflexivity ).
  - rewrite (vinterp3d_outside x y z v xq yq zq xsrc ysrc zsrc vzero fval E).
    apply vinterp3d_outside. exact Eh.
Qed.

(* ================================================================== *)
(* the same statements with an explicit pair of origins: moving the      *)
(* model from origin o to origin o' (axes are stored relative to it)     *)
(* ================================================================== *)
Corollary interp2d_origin_change (ox oy ox' oy' : R) (x y v : arr R) (nx ny : Z) (xq yq fval : R) :
  axis x nx -> axis y ny -> shape v = [nx; ny] ->
  u_interp2d_v (shift_axis ox' x) (shift_axis oy' y) v (ox' + xq) (oy' + yq) fval =
  u_interp2d_v (shift_axis ox x) (shift_axis oy y) v (ox + xq) (oy + yq) fval.
Proof.
  intros Ax Ay Sv.
  rewrite (interp2d_translate ox' oy' x y v nx ny xq yq fval Ax Ay Sv).
  rewrite (interp2d_translate ox oy x y v nx ny xq yq fval Ax Ay Sv). reflexivity.
Qed.

Corollary vinterp2d_origin_change (ox oy ox' oy' : R) (x y v : arr R) (nx ny : Z)
    (xq yq xsrc ysrc vzero fval : R) :
  axis x nx -> axis y ny -> shape v = [nx; ny] ->
  u_vinterp2d_v (shift_axis ox' x) (shift_axis oy' y) v (ox' + xq) (oy' + yq)
                (ox' + xsrc) (oy' + ysrc) vzero fval =
  u_vinterp2d_v (shift_axis ox x) (shift_axis oy y) v (ox + xq) (oy + yq)
                (ox + xsrc) (oy + ysrc) vzero fval.
Proof.
  intros Ax Ay Sv.
  rewrite (vinterp2d_translate ox' oy' x y v nx ny xq yq xsrc ysrc vzero fval Ax Ay Sv).
  rewrite (vinterp2d_translate ox oy x y v nx ny xq yq xsrc ysrc vzero fval Ax Ay Sv). reflexivity.
Qed.

Print Assumptions axis_shift.
Print Assumptions ssr_shift.
Print Assumptions interp2d_translate.
Print Assumptions interp3d_translate.
Print Assumptions vinterp2d_translate.
Print Assumptions vinterp3d_translate.
Print Assumptions none_origin_is_zero.
Print Assumptions shift_axis_0.
Print Assumptions interp2d_origin_change.
Print Assumptions vinterp2d_origin_change.
