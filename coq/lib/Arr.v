(* Shaped, flat, row-major arrays; Python ranges; loop combinators; outcome types. *)
From Coq Require Import ZArith List Bool Lia.
Import ListNotations.
Open Scope Z_scope.

(* ---------- list update ---------- *)
Fixpoint upd {A} (l : list A) (n : nat) (v : A) : list A :=
  match l, n with
  | [], _ => []
  | _ :: t, O => v :: t
  | h :: t, S n' => h :: upd t n' v
  end.
Lemma nth_upd_same {A} (l : list A) n v d : (n < length l)%nat -> nth n (upd l n v) d = v.
Proof. revert n; induction l as [|h t IH]; intros [|n] Hn; simpl in *; try lia; auto. apply IH; lia. Qed.
Lemma nth_upd_other {A} (l : list A) n m v d : n <> m -> nth m (upd l n v) d = nth m l d.
Proof. revert n m; induction l as [|h t IH]; intros [|n] [|m] Hn; simpl in *; auto; try congruence. Qed.
Lemma upd_length {A} (l : list A) n v : length (upd l n v) = length l.
Proof. revert n; induction l as [|h t IH]; intros [|n]; simpl; auto. Qed.

(* ---------- arrays ---------- *)
Record arr (A : Type) := mkarr { shape : list Z; dat : list A }.
Arguments mkarr {A}. Arguments shape {A}. Arguments dat {A}.

Definition prodZ (sh : list Z) : Z := fold_right Z.mul 1 sh.
(* Horner flat offset of a multi-index (row-major) *)
Fixpoint flat_aux (acc : Z) (sh idx : list Z) : Z :=
  match sh, idx with
  | d :: sh', i :: idx' => flat_aux (acc * d + i) sh' idx'
  | _, _ => acc
  end.
Definition flat (sh idx : list Z) : Z := flat_aux 0 sh idx.
(* every component in range and the rank matches *)
Fixpoint inb_sh (sh idx : list Z) : bool :=
  match sh, idx with
  | [], [] => true
  | d :: sh', i :: idx' => (0 <=? i) && (i <? d) && inb_sh sh' idx'
  | _, _ => false
  end.
Definition inb {A} (a : arr A) (idx : list Z) : bool := inb_sh (shape a) idx.
Definition dim {A} (a : arr A) (k : nat) : Z := nth k (shape a) 0.
Definition get {A} (d : A) (a : arr A) (idx : list Z) : A :=
  nth (Z.to_nat (flat (shape a) idx)) (dat a) d.
Definition set {A} (a : arr A) (idx : list Z) (v : A) : arr A :=
  mkarr (shape a) (upd (dat a) (Z.to_nat (flat (shape a) idx)) v).
Definition full {A} (sh : list Z) (v : A) : arr A := mkarr sh (repeat v (Z.to_nat (prodZ sh))).
Definition fill {A} (a : arr A) (v : A) : arr A := full (shape a) v.
Definition of_list {A} (l : list A) : arr A := mkarr [Z.of_nat (length l)] l.
(* well-formed: the data has exactly prod(shape) entries and every extent is non-negative *)
Definition wf {A} (a : arr A) : Prop :=
  length (dat a) = Z.to_nat (prodZ (shape a)) /\ Forall (fun d => 0 <= d) (shape a).

(* sub-block addressed by a prefix of leading indices: the contiguous row-major slice *)
Definition sub_shape (sh : list Z) (k : nat) : list Z := skipn k sh.
Definition sub_off (sh idx : list Z) : Z := flat sh idx * prodZ (skipn (length idx) sh).
Fixpoint upd_block {A} (l : list A) (n : nat) (vs : list A) : list A :=
  match vs with
  | [] => l
  | v :: vs' => upd_block (upd l n v) (S n) vs'
  end.
Definition get_sub {A} (a : arr A) (idx : list Z) : arr A :=
  let sh' := skipn (length idx) (shape a) in
  mkarr sh' (firstn (Z.to_nat (prodZ sh')) (skipn (Z.to_nat (sub_off (shape a) idx)) (dat a))).
Definition set_sub {A} (a : arr A) (idx : list Z) (s : arr A) : arr A :=
  mkarr (shape a) (upd_block (dat a) (Z.to_nat (sub_off (shape a) idx)) (dat s)).
(* prefix in range (for sub-block addressing) *)
Fixpoint inb_prefix (sh idx : list Z) : bool :=
  match idx, sh with
  | [], _ => true
  | i :: idx', d :: sh' => (0 <=? i) && (i <? d) && inb_prefix sh' idx'
  | _ :: _, [] => false
  end.
Definition inb_sub {A} (a : arr A) (idx : list Z) : bool := inb_prefix (shape a) idx.
(* column k of a 2-D array: q[:, k] *)
Definition col {A} (d : A) (a : arr A) (k : Z) : arr A :=
  let n := dim a 0 in
  mkarr [n] (map (fun i => get d a [Z.of_nat i; k]) (seq 0 (Z.to_nat n))).
(* rows count, count-1, ..., 0 of a 2-D array: ray[count::-1] *)
Definition rev_prefix {A} (a : arr A) (count : Z) : arr A :=
  let w := dim a 1 in
  let rows := map (fun r => dat (get_sub a [Z.of_nat r])) (seq 0 (Z.to_nat (count + 1))) in
  mkarr [count + 1; w] (concat (rev rows)).
Definition amap {A B} (f : A -> B) (a : arr A) : arr B := mkarr (shape a) (map f (dat a)).
Fixpoint zipw {A B C} (f : A -> B -> C) (l1 : list A) (l2 : list B) : list C :=
  match l1, l2 with
  | a :: t1, b :: t2 => f a b :: zipw f t1 t2
  | _, _ => []
  end.
Definition amap2 {A B C} (f : A -> B -> C) (a : arr A) (b : arr B) : arr C :=
  mkarr (shape a) (zipw f (dat a) (dat b)).
Definition aany (a : arr bool) : bool := existsb (fun b => b) (dat a).
(* boolean-mask selection a[m] on 1-D arrays *)
Fixpoint mask_list {A} (l : list A) (m : list bool) : list A :=
  match l, m with
  | a :: t, true :: mt => a :: mask_list t mt
  | _ :: t, false :: mt => mask_list t mt
  | _, _ => []
  end.
Definition amask {A} (a : arr A) (m : arr bool) : arr A := of_list (mask_list (dat a) (dat m)).
Definition alen {A} (a : arr A) : Z := Z.of_nat (length (dat a)).

(* ---------- Python range ---------- *)
Definition pyrange (a b s : Z) : list Z :=
  let n := if 0 <? s then (b - a + s - 1) / s
           else if s <? 0 then (a - b + (- s) - 1) / (- s) else 0 in
  map (fun k => a + s * Z.of_nat k) (seq 0 (Z.to_nat n)).

(* ---------- loops ---------- *)
Definition for_list {S} (l : list Z) (body : Z -> S -> S) (st : S) : S :=
  fold_left (fun s i => body i s) l st.
Fixpoint for_list_ok {S} (l : list Z) (okb : Z -> S -> bool) (body : Z -> S -> S) (st : S) : bool :=
  match l with
  | [] => true
  | i :: l' => okb i st && for_list_ok l' okb body (body i st)
  end.
Lemma for_list_nil {S} body (st : S) : for_list [] body st = st. Proof. reflexivity. Qed.
Lemma for_list_cons {S} i l body (st : S) : for_list (i :: l) body st = for_list l body (body i st).
Proof. reflexivity. Qed.
Lemma for_list_app {S} l1 l2 body (st : S) :
  for_list (l1 ++ l2) body st = for_list l2 body (for_list l1 body st).
Proof. unfold for_list. apply fold_left_app. Qed.
Lemma for_list_inv {S} (P : S -> Prop) (l : list Z) body st :
  P st -> (forall i s, In i l -> P s -> P (body i s)) -> P (for_list l body st).
Proof. unfold for_list. revert st; induction l as [|i l IH]; simpl; intros st H0 Hs; [exact H0|].
  apply IH; [apply Hs; auto | intros; apply Hs; auto]. Qed.
Lemma for_list_ok_inv {S} (P : S -> Prop) (l : list Z) okb body (st : S) :
  P st -> (forall i s, In i l -> P s -> P (body i s) /\ okb i s = true) ->
  for_list_ok l okb body st = true.
Proof. revert st; induction l as [|i l IH]; simpl; intros st H0 Hs; [reflexivity|].
  destruct (Hs i st (or_introl eq_refl) H0) as [Hp Ho]. rewrite Ho; simpl.
  apply IH; [exact Hp | intros; apply Hs; auto]. Qed.
(* two loops over the same list whose bodies preserve a relation end in related states *)
Lemma for_list_rel {S1 S2} (R : S1 -> S2 -> Prop) (l : list Z) b1 b2 s1 s2 :
  R s1 s2 -> (forall i a b, In i l -> R a b -> R (b1 i a) (b2 i b)) ->
  R (for_list l b1 s1) (for_list l b2 s2).
Proof. unfold for_list. revert s1 s2; induction l as [|i l IH]; simpl; intros s1 s2 H0 Hs; [exact H0|].
  apply IH; [apply Hs; auto | intros; apply Hs; auto]. Qed.

(* ---------- outcomes ---------- *)
Inductive exn := ValueError | RuntimeError | OtherError.
Inductive res (A : Type) := Ok (a : A) | Raise (e : exn) | OutOfFuel.
Arguments Ok {A}. Arguments Raise {A}. Arguments OutOfFuel {A}.
Definition rbind {A B} (r : res A) (f : A -> res B) : res B :=
  match r with Ok a => f a | Raise e => Raise e | OutOfFuel => OutOfFuel end.
Definition res_ok {A} (r : res A) (f : A -> bool) : bool :=
  match r with Ok a => f a | _ => true end.
(* sequential evaluation of a list of computations: first failure wins (Python order) *)
Fixpoint mapM {A B} (f : A -> res B) (l : list A) : res (list B) :=
  match l with
  | [] => Ok []
  | a :: t => rbind (f a) (fun b => rbind (mapM f t) (fun bs => Ok (b :: bs)))
  end.
(* control outcome of one loop-body execution *)
Inductive ctl (S : Type) := Next (s : S) | Brk (s : S) | Exc (e : exn).
Arguments Next {S}. Arguments Brk {S}. Arguments Exc {S}.
Fixpoint while_fuel {S} (fuel : nat) (cond : S -> bool) (body : S -> ctl S) (s : S) : res S :=
  match fuel with
  | O => OutOfFuel
  | Datatypes.S f =>
      if cond s then
        match body s with
        | Next s' => while_fuel f cond body s'
        | Brk s' => Ok s'
        | Exc e => Raise e
        end
      else Ok s
  end.
Fixpoint while_ok {S} (fuel : nat) (cond : S -> bool) (cond_ok : S -> bool)
         (body : S -> ctl S) (body_ok : S -> bool) (s : S) : bool :=
  match fuel with
  | O => true
  | Datatypes.S f =>
      cond_ok s &&
      (if cond s then
         body_ok s &&
         match body s with
         | Next s' => while_ok f cond cond_ok body body_ok s'
         | _ => true
         end
       else true)
  end.

(* obligation switches: wI = index obligations on, wD = divisor obligations on *)
Definition obI (w c : bool) : bool := if w then c else true.
Definition obD (w c : bool) : bool := if w then c else true.

(* first exception raised by a validation loop `for i in l: if c i: raise E` *)
Fixpoint find_exc (f : Z -> option exn) (l : list Z) : option exn :=
  match l with
  | [] => None
  | i :: t => match f i with Some e => Some e | None => find_exc f t end
  end.
