(* Facts about shaped arrays used by every proof: get/set laws for in-range multi-indices. *)
From Coq Require Import ZArith List Bool Lia.
From FT.lib Require Import Arr.
Import ListNotations.
Open Scope Z_scope.

(* ---------- flat offsets ---------- *)
Lemma flat_aux_bound sh : forall idx acc,
  inb_sh sh idx = true -> 0 <= acc ->
  acc * prodZ sh <= flat_aux acc sh idx < (acc + 1) * prodZ sh.
Proof.
  induction sh as [|d sh IH]; intros [|i idx] acc Hin Hacc; simpl in *; try discriminate.
  - unfold prodZ; simpl. lia.
  - apply andb_prop in Hin as [Hi Hin]. apply andb_prop in Hi as [Hi0 Hid].
    apply Z.leb_le in Hi0. apply Z.ltb_lt in Hid.
    specialize (IH idx (acc * d + i) Hin ltac:(nia)).
    change (prodZ (d :: sh)) with (d * prodZ sh).
    assert (0 <= prodZ sh).
    { destruct (Z_le_gt_dec 0 (prodZ sh)); auto. nia. }
    nia.
Qed.

Lemma flat_aux_inj sh : forall idx idx' acc acc',
  inb_sh sh idx = true -> inb_sh sh idx' = true -> 0 <= acc -> 0 <= acc' ->
  flat_aux acc sh idx = flat_aux acc' sh idx' -> acc = acc' /\ idx = idx'.
Proof.
  induction sh as [|d sh IH]; intros [|i idx] [|i' idx'] acc acc' H1 H2 Ha Ha' E; simpl in *; try discriminate.
  - auto.
  - apply andb_prop in H1 as [Hi H1]. apply andb_prop in Hi as [Hi0 Hid].
    apply andb_prop in H2 as [Hi' H2]. apply andb_prop in Hi' as [Hi0' Hid'].
    apply Z.leb_le in Hi0, Hi0'. apply Z.ltb_lt in Hid, Hid'.
    destruct (IH idx idx' (acc * d + i) (acc' * d + i') H1 H2 ltac:(nia) ltac:(nia) E) as [E1 E2].
    subst idx'. assert (acc = acc') by nia. subst. split; auto. f_equal. lia.
Qed.

Lemma flat_inj sh idx idx' :
  inb_sh sh idx = true -> inb_sh sh idx' = true -> flat sh idx = flat sh idx' -> idx = idx'.
Proof. intros H1 H2 E. unfold flat in E. apply (flat_aux_inj sh idx idx' 0 0 H1 H2) in E; try lia. tauto. Qed.

Lemma flat_bound sh idx : inb_sh sh idx = true -> 0 <= flat sh idx < prodZ sh.
Proof. intros H. pose proof (flat_aux_bound sh idx 0 H ltac:(lia)). unfold flat. lia. Qed.

(* ---------- get / set ---------- *)
Section GS.
Context {A : Type}.
Implicit Types a : arr A.

Lemma shape_set a idx v : shape (set a idx v) = shape a. Proof. reflexivity. Qed.
Lemma wf_set a idx v : wf a -> wf (set a idx v).
Proof. intros [H1 H2]. split; simpl; auto. rewrite upd_length; auto. Qed.
Lemma inb_set a idx v idx' : inb (set a idx v) idx' = inb a idx'. Proof. reflexivity. Qed.
Lemma dim_set a idx v k : dim (set a idx v) k = dim a k. Proof. reflexivity. Qed.

Lemma get_set_same d a idx v : wf a -> inb a idx = true -> get d (set a idx v) idx = v.
Proof.
  intros [Hl _] Hin. unfold get, set; simpl. apply nth_upd_same. rewrite Hl.
  pose proof (flat_bound _ _ Hin). apply Z2Nat.inj_lt; lia.
Qed.
Lemma get_set_other d a idx idx' v :
  inb a idx = true -> inb a idx' = true -> idx <> idx' -> get d (set a idx v) idx' = get d a idx'.
Proof.
  intros H1 H2 Hne. unfold get, set; simpl. apply nth_upd_other. intro E.
  apply Hne. apply (flat_inj (shape a)); auto.
  pose proof (flat_bound _ _ H1). pose proof (flat_bound _ _ H2). apply Z2Nat.inj in E; lia.
Qed.
Lemma get_set d a idx idx' v (dec : {idx = idx'} + {idx <> idx'}) :
  wf a -> inb a idx = true -> inb a idx' = true ->
  get d (set a idx v) idx' = if dec then v else get d a idx'.
Proof. intros Hw H1 H2. destruct dec as [<-|N]; [apply get_set_same | apply get_set_other]; auto. Qed.

Lemma wf_full sh (v : A) : Forall (fun d => 0 <= d) sh -> wf (full sh v).
Proof. intros H. split; simpl; auto. apply repeat_length. Qed.
Lemma get_full d sh (v : A) idx : inb_sh sh idx = true -> get d (full sh v) idx = v.
Proof.
  intros H. unfold get, full; simpl. pose proof (flat_bound _ _ H) as Hb.
  assert (G : forall n m, (n < m)%nat -> nth n (repeat v m) d = v).
  { intros n m; revert n; induction m as [|m IH]; intros [|n] Hn; simpl; try lia; auto. apply IH; lia. }
  apply G. apply Z2Nat.inj_lt; lia.
Qed.
(* extensionality: same shape and pointwise equal on in-range indices *)
End GS.

(* ---------- index decoding for 2-, 3- and 4-D, used for extensionality ---------- *)
Lemma inb2 {A} (a : arr A) n0 n1 i j :
  shape a = [n0; n1] -> inb a [i; j] = (0 <=? i) && (i <? n0) && ((0 <=? j) && (j <? n1) && true).
Proof. intros E. unfold inb. rewrite E. reflexivity. Qed.

Lemma list_eq_dec_Z : forall (l l' : list Z), {l = l'} + {l <> l'}.
Proof. apply list_eq_dec. apply Z.eq_dec. Defined.

(* ---------- Python ranges ---------- *)
Lemma in_pyrange_up i a b : In i (pyrange a b 1) <-> a <= i < b.
Proof.
  unfold pyrange. change (0 <? 1) with true. cbv iota.
  replace ((b - a + 1 - 1) / 1) with (b - a) by (rewrite Z.div_1_r; lia).
  rewrite in_map_iff. split.
  - intros (k & <- & Hk). apply in_seq in Hk. lia.
  - intros H. exists (Z.to_nat (i - a)). split; [lia|]. apply in_seq. lia.
Qed.
Lemma in_pyrange_down i a b : In i (pyrange a b (-1)) <-> b < i <= a.
Proof.
  unfold pyrange. change (0 <? -1) with false. change (-1 <? 0) with true. cbv iota.
  change (- -1) with 1.
  replace ((a - b + 1 - 1) / 1) with (a - b) by (rewrite Z.div_1_r; lia).
  rewrite in_map_iff. split.
  - intros (k & <- & Hk). apply in_seq in Hk. lia.
  - intros H. exists (Z.to_nat (a - i)). split; [lia|]. apply in_seq. lia.
Qed.
