(* Array helpers that need the numeric interface. *)
From Coq Require Import ZArith List Bool.
From FT.lib Require Import Num Arr.
Import ListNotations.
Open Scope Z_scope.

Section NA.
Context {T : Type} `{Num T}.
(* np.searchsorted(x, q, side="right") on an ascending array: number of leading elements <= q,
   i.e. the index of the first element strictly greater than q (len(x) if none). *)
Fixpoint ssr_list (l : list T) (q : T) : Z :=
  match l with
  | [] => 0
  | e :: t => if nltb q e then 0 else 1 + ssr_list t q
  end.
Definition searchsorted_right (x : arr T) (q : T) : Z := ssr_list (dat x) q.
(* ndarray.min() of a non-empty float array (NaN-free use) *)
Definition amin (a : arr T) : T :=
  match dat a with
  | [] => nofZ 0
  | e :: t => fold_left pymin2 t e
  end.
End NA.
Fixpoint shape_eqb (a b : list Z) : bool :=
  match a, b with
  | [], [] => true
  | x :: a', y :: b' => (x =? y) && shape_eqb a' b'
  | _, _ => false
  end.
