(* Numeric interface the generated kernels are polymorphic in, and its two instances:
   NumR (exact real arithmetic, for proofs) and NumF (IEEE binary64 primitive floats, runs
   under vm_compute and is compared with the implementation). *)
From Coq Require Import ZArith List Bool Reals Lra Lia PrimFloat Uint63 FloatOps SpecFloat.
Import ListNotations.

Class Num (T : Type) := {
  nadd : T -> T -> T; nsub : T -> T -> T; nmul : T -> T -> T; ndiv : T -> T -> T;
  nsqrt : T -> T; nabs : T -> T; nneg : T -> T;
  nltb : T -> T -> bool; nleb : T -> T -> bool; neqb : T -> T -> bool;
  nofZ : Z -> T; nofQ : Z -> positive -> T;
  ntrunc : T -> Z;       (* Python int(x): truncation toward zero *)
  nround : T -> T;       (* np.round(x): nearest integer, ties to even *)
  nnan : T;              (* np.nan (only ever returned as a fill value) *)
}.

Section Derived.
Context {T : Type} `{Num T}.
(* x ** 2.0 : both operands are the same evaluation of x *)
Definition nsq (x : T) : T := nmul x x.
(* Python's (and Numba's) min / max: keep the accumulator, replace when strictly better *)
Definition pymin2 (a b : T) : T := if nltb b a then b else a.
Definition pymax2 (a b : T) : T := if nltb a b then b else a.
Definition pymin3 (a b c : T) : T := pymin2 (pymin2 a b) c.
Definition pymin4 (a b c d : T) : T := pymin2 (pymin3 a b c) d.
Definition pymax3 (a b c : T) : T := pymax2 (pymax2 a b) c.
(* Python comparison operators on floats *)
Definition ngtb (a b : T) : bool := nltb b a.
Definition ngeb (a b : T) : bool := nleb b a.
Definition nneb (a b : T) : bool := negb (neqb a b).
(* truthiness of a float: non-zero (NaN is truthy) *)
Definition ntruthy (a : T) : bool := negb (neqb a (nofZ 0)).
End Derived.

(* ---------- R instance ---------- *)
Definition Rltb (a b : R) : bool := if Rlt_dec a b then true else false.
Definition Rleb (a b : R) : bool := if Rle_dec a b then true else false.
Definition Reqb (a b : R) : bool := if Req_EM_T a b then true else false.
Definition Rtrunc (x : R) : Z := if Rle_dec 0 x then Int_part x else (- Int_part (- x))%Z.
Definition Rround (x : R) : R :=
  let f := Int_part x in
  let r := (x - IZR f)%R in
  IZR (if Rlt_dec r (1/2) then f else if Rlt_dec (1/2) r then (f + 1)%Z
       else if Z.even f then f else (f + 1)%Z).
#[global] Instance NumR : Num R := {|
  nadd := Rplus; nsub := Rminus; nmul := Rmult; ndiv := Rdiv; nsqrt := R_sqrt.sqrt;
  nabs := Rabs; nneg := Ropp;
  nltb := Rltb; nleb := Rleb; neqb := Reqb; nofZ := IZR;
  nofQ := fun n d => (IZR n / IZR (Zpos d))%R;
  ntrunc := Rtrunc; nround := Rround; nnan := 0%R |}.

Lemma Rltb_true a b : Rltb a b = true <-> (a < b)%R.
Proof. unfold Rltb; destruct (Rlt_dec a b); split; intros; auto; try discriminate; contradiction. Qed.
Lemma Rltb_false a b : Rltb a b = false <-> (b <= a)%R.
Proof. unfold Rltb; destruct (Rlt_dec a b); split; intros; auto; try discriminate; lra. Qed.
Lemma Rleb_true a b : Rleb a b = true <-> (a <= b)%R.
Proof. unfold Rleb; destruct (Rle_dec a b); split; intros; auto; try discriminate; contradiction. Qed.
Lemma Rleb_false a b : Rleb a b = false <-> (b < a)%R.
Proof. unfold Rleb; destruct (Rle_dec a b); split; intros; auto; try discriminate; lra. Qed.
Lemma Reqb_true a b : Reqb a b = true <-> a = b.
Proof. unfold Reqb; destruct (Req_EM_T a b); split; intros; auto; try discriminate; contradiction. Qed.
Lemma Reqb_false a b : Reqb a b = false <-> a <> b.
Proof. unfold Reqb; destruct (Req_EM_T a b); split; intros; auto; try discriminate; contradiction. Qed.

(* ---------- binary64 instance ---------- *)
Definition f_ofZ (z : Z) : float :=
  match z with
  | Z0 => 0%float
  | Zpos p => of_uint63 (Uint63.of_Z z)
  | Zneg p => PrimFloat.opp (of_uint63 (Uint63.of_Z (Zpos p)))
  end.
Definition f_trunc (x : float) : Z :=
  match Prim2SF x with
  | S754_finite s m e =>
      let a := if (0 <=? e)%Z then (Zpos m * 2 ^ e)%Z else (Zpos m / 2 ^ (- e))%Z in
      if s then (- a)%Z else a
  | _ => 0%Z
  end.
Definition f_2p52 : float := 4503599627370496%float.
Definition f_round (x : float) : float :=
  if PrimFloat.ltb (PrimFloat.abs x) f_2p52 then
    if PrimFloat.ltb x 0%float
    then PrimFloat.opp (PrimFloat.sub (PrimFloat.add (PrimFloat.opp x) f_2p52) f_2p52)
    else PrimFloat.sub (PrimFloat.add x f_2p52) f_2p52
  else x.
#[global] Instance NumF : Num float := {|
  nadd := PrimFloat.add; nsub := PrimFloat.sub; nmul := PrimFloat.mul; ndiv := PrimFloat.div;
  nsqrt := PrimFloat.sqrt; nabs := PrimFloat.abs; nneg := PrimFloat.opp;
  nltb := PrimFloat.ltb; nleb := PrimFloat.leb; neqb := PrimFloat.eqb; nofZ := f_ofZ;
  nofQ := fun n d => PrimFloat.div (f_ofZ n) (f_ofZ (Zpos d));
  ntrunc := f_trunc; nround := f_round; nnan := PrimFloat.nan |}.

(* ---------- order laws generic proofs may assume (hold for R and, NaN included, binary64) ---------- *)
Class NumLaws (T : Type) `{Num T} := {
  nltb_irrefl : forall a : T, nltb a a = false;
  nltb_trans : forall a b c : T, nltb a b = true -> nltb b c = true -> nltb a c = true }.

#[global] Instance NumLawsR : NumLaws R.
Proof. split; simpl.
  - intros a. apply Rltb_false. lra.
  - intros a b c H1 H2. apply Rltb_true in H1, H2. apply Rltb_true. lra. Qed.
