(* Encoders used by the correspondence harness: every result becomes a flat list of floats. *)
From Coq Require Import ZArith List Bool PrimFloat.
From FT.lib Require Import Num Arr.
Import ListNotations.
Open Scope Z_scope.

Definition encF (x : float) : list float := [x].
Definition encZ (z : Z) : list float := [f_ofZ z].
Definition encB (b : bool) : list float := [if b then 1%float else 0%float].
Definition encSh (sh : list Z) : list float := f_ofZ (Z.of_nat (length sh)) :: map f_ofZ sh.
Definition encAF (a : arr float) : list float := encSh (shape a) ++ dat a.
Definition encAZ (a : arr Z) : list float := encSh (shape a) ++ map f_ofZ (dat a).
Definition encAB (a : arr bool) : list float :=
  encSh (shape a) ++ map (fun b : bool => if b then 1%float else 0%float) (dat a).
Definition encL {A} (f : A -> list float) (l : list A) : list float :=
  f_ofZ (Z.of_nat (length l)) :: flat_map f l.
Definition encR {A} (f : A -> list float) (r : res A) : list float :=
  match r with
  | Ok a => 0%float :: f a
  | Raise ValueError => [1%float]
  | Raise RuntimeError => [2%float]
  | Raise OtherError => [3%float]
  | OutOfFuel => [9%float]
  end.
