From Coq Require Import ZArith List Bool Lia.
From FT.lib Require Import Num Arr.
Import ListNotations.

(* generic: maps that only go down in a partial order; if a composition is the identity, every factor was *)
Section Poset.
Variables (S : Type) (ok : S -> Prop) (le : S -> S -> Prop).
Hypothesis le_refl : forall s, ok s -> le s s.
Hypothesis le_trans : forall a b c, le a b -> le b c -> le a c.
Hypothesis le_antisym : forall a b, ok a -> ok b -> le a b -> le b a -> a = b.
Definition lowering (f : S -> S) := forall s, ok s -> ok (f s) /\ le (f s) s.
Lemma lowering_comp f g : lowering f -> lowering g -> lowering (fun s => g (f s)).
Proof. intros Hf Hg s Hs. destruct (Hf s Hs) as [o1 l1]. destruct (Hg _ o1) as [o2 l2]. split; eauto. Qed.
Lemma lowering_for_list (l : list Z) body : (forall i, In i l -> lowering (body i)) -> lowering (for_list l body).
Proof. unfold for_list. induction l as [|i l IH]; intros Hb s Hs; simpl.
  - split; auto.
  - destruct (Hb i (or_introl eq_refl) s Hs) as [o1 l1].
    destruct (IH (fun k Hk => Hb k (or_intror Hk)) _ o1) as [o2 l2]. split; eauto. Qed.
Lemma fixed_comp f g s : lowering f -> lowering g -> ok s -> g (f s) = s -> f s = s /\ g s = s.
Proof. intros Hf Hg Hs E. destruct (Hf s Hs) as [o1 l1]. destruct (Hg _ o1) as [o2 l2].
  assert (le s (f s)) as l3 by (pattern s at 1; rewrite <- E; exact l2).
  assert (f s = s) as Efs by (apply le_antisym; auto).
  split; [exact Efs | rewrite Efs in E; exact E]. Qed.
Lemma fixed_for_list (l : list Z) body s :
  (forall i, In i l -> lowering (body i)) -> ok s -> for_list l body s = s -> forall i, In i l -> body i s = s.
Proof. unfold for_list. revert s. induction l as [|k l IH]; intros s Hb Hs E i Hi; [destruct Hi|]. simpl in E.
  assert (Hl : lowering (for_list l body)) by (apply lowering_for_list; intros; apply Hb; right; auto).
  destruct (fixed_comp (body k) (for_list l body) s (Hb k (or_introl eq_refl)) Hl Hs E) as [E1 E2].
  destruct Hi as [<-|Hi]; auto. apply IH; auto. intros; apply Hb; right; auto. Qed.
End Poset.

Section NumOrder.
Context {T : Type} `{NumLaws T}.
Definition le_or_same (a b : T) : Prop := a = b \/ nltb a b = true.
Lemma los_refl a : le_or_same a a. Proof. left; auto. Qed.
Lemma los_trans a b c : le_or_same a b -> le_or_same b c -> le_or_same a c.
Proof. intros [E|H1] [E'|H2]; unfold le_or_same; subst; auto. right; eapply nltb_trans; eauto. Qed.
Lemma los_antisym a b : le_or_same a b -> le_or_same b a -> a = b.
Proof. intros [E|H1] [E'|H2]; auto. pose proof (nltb_trans _ _ _ H1 H2) as X. rewrite nltb_irrefl in X; discriminate. Qed.
Lemma pymin3_los (a b c : T) : le_or_same (pymin3 a b c) a.
Proof. unfold pymin3, pymin2. destruct (nltb b a) eqn:E1.
  - destruct (nltb c b) eqn:E2; right; auto. eapply nltb_trans; eauto.
  - destruct (nltb c a) eqn:E2; [right|left]; auto. Qed.
Lemma pymin3_fix (a b c : T) : pymin3 a b c = a -> nltb b a = false.
Proof. unfold pymin3, pymin2. destruct (nltb b a) eqn:E1; auto.
  destruct (nltb c b) eqn:E2; intros <-.
  - pose proof (nltb_trans _ _ _ E2 E1) as X. rewrite nltb_irrefl in X; discriminate.
  - rewrite nltb_irrefl in E1; discriminate. Qed.
Lemma pymin2_fix_l (a b t : T) : nltb (pymin2 a b) t = false -> nltb a t = false.
Proof. unfold pymin2. destruct (nltb b a) eqn:E; auto. intros Hb. destruct (nltb a t) eqn:Ea; auto.
  rewrite (nltb_trans _ _ _ E Ea) in Hb; discriminate. Qed.
(* the right operand needs `a` comparable (not NaN): with a = NaN, min(a,b) = NaN hides b *)
Lemma pymin2_fix_r (a b t : T) :
  (nltb b a = false -> nltb b t = true -> nltb a t = true) ->
  nltb (pymin2 a b) t = false -> nltb b t = false.
Proof. unfold pymin2. intros Htot. destruct (nltb b a) eqn:E; auto. intros Ha. destruct (nltb b t) eqn:Eb; auto.
  rewrite (Htot eq_refl eq_refl) in Ha; discriminate. Qed.
End NumOrder.
