(* Hand-written model of the index arithmetic of fteikpy/_io.py (mesh export) and of the metadata arithmetic of
   BaseGrid.resample / smooth in fteikpy/_base.py.  Tied to the code by the correspondence in harness/corr_api.py, which
   evaluates these definitions with vm_compute and compares them with what the implementation produces. *)
From Coq Require Import ZArith List Bool Lia.
Import ListNotations.
Open Scope Z_scope.

(* ---------------- 2D: _generate_mesh_2d(nx, nz, ...) with order="F" ----------------
   X, Y = meshgrid(x, z, indexing="ij"); ravel("F")  ==>  point p <-> (ix, iz) with p = ix + (nx+1)*iz *)
Definition pidx2 (nx ix iz : Z) : Z := ix + (nx + 1) * iz.
Definition cidx2 (nx ix iz : Z) : Z := ix + nx * iz.
(* np.ravel_multi_index([i, j], [nx+1, nz+1], order="F") for the four vertices, in mesh_vertices order *)
Definition corners2 (nx ix iz : Z) : list Z :=
  [pidx2 nx ix iz; pidx2 nx (ix + 1) iz; pidx2 nx (ix + 1) (iz + 1); pidx2 nx ix (iz + 1)].
(* grid.ravel() (C order) of an array indexed [iz, ix] with nxn columns *)
Definition ravel2 (ncols iz ix : Z) : Z := iz * ncols + ix.
(* the enumeration orders the implementation produces *)
Definition range0 (n : Z) : list Z := map Z.of_nat (seq 0 (Z.to_nat n)).
Definition points2 (nx nz : Z) : list (Z * Z) :=   (* (ix, iz) of point 0, 1, 2, ... *)
  flat_map (fun iz => map (fun ix => (ix, iz)) (range0 (nx + 1))) (range0 (nz + 1)).
Definition cells2 (nx nz : Z) : list (list Z) :=
  flat_map (fun iz => map (fun ix => corners2 nx ix iz) (range0 nx)) (range0 nz).

(* ---------------- 3D: _generate_mesh_3d(nx, ny, nz, ...) with order="C" ---------------- *)
Definition pidx3 (ny nz ix iy iz : Z) : Z := (ix * (ny + 1) + iy) * (nz + 1) + iz.
Definition cidx3 (ny nz ix iy iz : Z) : Z := (ix * ny + iy) * nz + iz.
Definition corners3 (ny nz ix iy iz : Z) : list Z :=
  [pidx3 ny nz ix iy iz; pidx3 ny nz (ix + 1) iy iz; pidx3 ny nz (ix + 1) (iy + 1) iz; pidx3 ny nz ix (iy + 1) iz;
   pidx3 ny nz ix iy (iz + 1); pidx3 ny nz (ix + 1) iy (iz + 1); pidx3 ny nz (ix + 1) (iy + 1) (iz + 1); pidx3 ny nz ix (iy + 1) (iz + 1)].
(* np.transpose(grid, [1, 2, 0]).ravel() of an array indexed [iz, ix, iy] with extents (_, nxn, nyn) and nzn planes *)
Definition ravel3_t (nyn nzn iz ix iy : Z) : Z := (ix * nyn + iy) * nzn + iz.
Definition points3 (nx ny nz : Z) : list (Z * Z * Z) :=
  flat_map (fun ix => flat_map (fun iy => map (fun iz => (ix, iy, iz)) (range0 (nz + 1))) (range0 (ny + 1))) (range0 (nx + 1)).
Definition cells3 (nx ny nz : Z) : list (list Z) :=
  flat_map (fun ix => flat_map (fun iy => map (fun iz => corners3 ny nz ix iy iz) (range0 nz)) (range0 ny)) (range0 nx).

(* ---------------- rays: ray_to_meshio ---------------- *)
(* segments of a ray with n vertices whose first vertex is global point `off` *)
Definition ray_segments (off n : Z) : list (Z * Z) := map (fun k => (off + k, off + k + 1)) (range0 (n - 1)).
Fixpoint rays_segments (off : Z) (lens : list Z) : list (list (Z * Z)) :=
  match lens with
  | [] => []
  | n :: t => ray_segments off n :: rays_segments (off + n) t
  end.

(* ---------------- resample / smooth metadata (numbers as exact rationals are not needed: statements over Z scale) ------ *)
(* new spacing = spacing * old_shape / new_shape, per axis: stated on the product form to stay in Z *)
Definition extent (n d : Z) : Z := n * d.
