(* Hand-written model of what the API layer (fteikpy/_base.py, _grid.py, _solver.py) hands to the kernels:
     axes              zaxis = origin[0] + gridsize[0] * arange(shape[0]), ...
     Eikonal*.solve    kernel(1.0 / grid, *gridsize, sources - origin, nsweep, return_gradient)
     Traveltime*.raytrace   stepsize = min(gridsize) if honor_grid or not stepsize; max_step = int(2*sqrt(sum (n_a*d_a)^2) / stepsize) if not max_step
   Tied to the code by harness/corr_api.py (run_api): the kernel entry points are wrapped in the harness process, the
   arguments they receive are recorded, and compared bit for bit with these definitions evaluated by vm_compute. *)
From Coq Require Import ZArith List Bool.
From FT.lib Require Import Num.
Import ListNotations.
Open Scope Z_scope.

Section Api.
Context {T : Type} `{Num T}.

Definition zrange0 (n : Z) : list Z := map Z.of_nat (seq 0 (Z.to_nat n)).
Definition axis_nodes (o d : T) (n : Z) : list T := map (fun k => nadd o (nmul d (nofZ k))) (zrange0 n).

Fixpoint zip_sub (a b : list T) : list T :=
  match a, b with x :: a', y :: b' => nsub x y :: zip_sub a' b' | _, _ => [] end.
Definition slowness_of (grid : list T) : list T := map (fun v => ndiv (nofZ 1) v) grid.
(* what solve passes on: (slowness model, spacings, source relative to the origin) *)
Definition solve_args (grid gridsize origin src : list T) : list T * list T * list T :=
  (slowness_of grid, gridsize, zip_sub src origin).

Definition list_min (l : list T) (d : T) : T :=
  match l with [] => d | x :: t => fold_left pymin2 t x end.
(* stepsize: None / 0 means "default" *)
Definition ray_stepsize (gridsize : list T) (stepsize : option T) (honor : bool) : T :=
  match stepsize with
  | Some s => if honor || negb (ntruthy s) then list_min gridsize s else s
  | None => list_min gridsize (nofZ 0)
  end.
Fixpoint sumsq (shape : list Z) (gridsize : list T) : T :=
  match shape, gridsize with
  | n :: sh, d :: gs => nadd (nsq (nmul (nofZ n) d)) (sumsq sh gs)
  | _, _ => nofZ 0
  end.
(* the Python expression is 2.0 * (a + b [+ c]) ** 0.5 with the sum associated to the left *)
Fixpoint sumsq_left (acc : T) (shape : list Z) (gridsize : list T) : T :=
  match shape, gridsize with
  | n :: sh, d :: gs => sumsq_left (nadd acc (nsq (nmul (nofZ n) d))) sh gs
  | _, _ => acc
  end.
Definition max_dist (shape : list Z) (gridsize : list T) : T :=
  match shape, gridsize with
  | n :: sh, d :: gs => nmul (nofZ 2) (nsqrt (sumsq_left (nsq (nmul (nofZ n) d)) sh gs))
  | _, _ => nofZ 0
  end.
Definition ray_max_step (shape : list Z) (gridsize : list T) (stepsize : T) (max_step : option Z) : Z :=
  match max_step with
  | Some m => if m =? 0 then ntrunc (ndiv (max_dist shape gridsize) stepsize) else m
  | None => ntrunc (ndiv (max_dist shape gridsize) stepsize)
  end.
End Api.
