(* Hand-written model of the metadata arithmetic of BaseGrid2D/3D.resample and .smooth (fteikpy/_base.py):
     resample:  gridsize' = tuple(a * b / c for a, b, c in zip(gridsize, old_shape, new_shape)); shape' = new_shape; origin kept
     smooth:    the Gaussian filter is called with sigma / gridsize (per axis); shape, gridsize, origin kept
   SciPy's interpolator and filter themselves are not modelled (their effect on values is examined by the oracle). *)
From Coq Require Import ZArith List Bool.
From FT.lib Require Import Num.
Import ListNotations.

Section M.
Context {T : Type} `{Num T}.
Fixpoint resample_gridsize (gs : list T) (old new : list Z) : list T :=
  match gs, old, new with
  | a :: gs', b :: old', c :: new' => ndiv (nmul a (nofZ b)) (nofZ c) :: resample_gridsize gs' old' new'
  | _, _, _ => []
  end.
Fixpoint smooth_arg (sigma gs : list T) : list T :=
  match sigma, gs with
  | s :: sigma', g :: gs' => ndiv s g :: smooth_arg sigma' gs'
  | _, _ => []
  end.
Record meta := { m_shape : list Z; m_gridsize : list T; m_origin : list T }.
Definition resample_meta (m : meta) (new : list Z) : meta :=
  {| m_shape := new; m_gridsize := resample_gridsize (m_gridsize m) (m_shape m) new; m_origin := m_origin m |}.
Definition smooth_meta (m : meta) : meta := m.
End M.
Arguments meta T : clear implicits.
