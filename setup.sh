#!/bin/bash
# Offline setup: regenerate the Coq model from /repo, build the whole development, warm the JIT caches.
set -u
cd /verif
mkdir -p work evidence .cache/numba coq/gen
/venv/bin/python tools/py2coq/effects.py /repo/fteikpy coq/gen/Effects.v
/venv/bin/python tools/py2coq/apigen.py --pkg /repo/fteikpy --out coq/gen || echo "apigen reported a failure (checks will report it)"
/venv/bin/python tools/py2coq/iogen.py --pkg /repo/fteikpy --out coq/gen || echo "iogen reported a failure (checks will report it)"
/venv/bin/python tools/py2coq/py2coq.py --pkg /repo/fteikpy --out coq/gen || echo "translator reported failures (checks will report them)"
cd coq
coq_makefile -f _CoqProject -o Makefile >/dev/null 2>&1
timeout 7200 make -k -j14 >/verif/work/setup_make.log 2>&1 || echo "some Coq files did not build (see work/setup_make.log); the checks report what is broken"
cd /verif
for mode in jit boundscheck; do
  env NUMBA_CACHE_DIR=$(/venv/bin/python -c "import sys; sys.path.insert(0,'/verif/harness'); import impl; print(impl.numba_cache_dir('$mode'))") PYTHONPATH=/repo $( [ $mode = boundscheck ] && echo NUMBA_BOUNDSCHECK=1 ) \
    timeout 1800 /venv/bin/python harness/warm.py >/verif/work/warm_$mode.log 2>&1 &
done
wait
echo "setup done"
